/* pxsim core: everything the worlds share.
 *
 * One integer decides everything: a run is generate(seed) -> explicit
 * scenario (params + op list, faults attached to ops, schedule) and then
 * execute(scenario), which never draws from a PRNG, reads no clock and no
 * address.  The scenario text is the replay file.
 */
#ifndef PXSIM_H
#define PXSIM_H

#include <stdint.h>
#include <stddef.h>
#include <stdio.h>
#include <string.h>
#include <stdlib.h>
#include <setjmp.h>
#include <unistd.h>

#include "config.h"
#include "pixman-private.h"

/* ------------------------------------------------------------------ PRNG */

typedef struct { uint64_t s[4]; } rng_t;

uint64_t sim_splitmix (uint64_t *x);
void     rng_seed (rng_t *r, uint64_t seed, uint64_t stream);
uint64_t rng_u64 (rng_t *r);
/* uniform in [0,n) ; n > 0 */
uint32_t rng_n (rng_t *r, uint32_t n);
/* uniform in [lo,hi] inclusive */
int64_t  rng_range (rng_t *r, int64_t lo, int64_t hi);
/* TRUE with probability num/den */
int      rng_chance (rng_t *r, uint32_t num, uint32_t den);

/* ------------------------------------------------------------------ hash */

#define FNV_INIT 0xcbf29ce484222325ull
static inline uint64_t fnv_bytes (uint64_t h, const void *p, size_t n)
{
    const unsigned char *b = p;
    size_t i;
    for (i = 0; i < n; i++) { h ^= b[i]; h *= 0x100000001b3ull; }
    return h;
}
static inline uint64_t fnv_u64 (uint64_t h, uint64_t v)
{
    return fnv_bytes (h, &v, sizeof v);
}

/* -------------------------------------------------------------- scenario */

#define SIM_MAX_ARGS 96
#define SIM_MAX_PARAMS 48

typedef struct
{
    int     kind;
    int     n;
    int64_t a[SIM_MAX_ARGS];
} sim_op_t;

typedef struct
{
    char    key[32];
    int64_t val;
} sim_param_t;

typedef struct
{
    uint64_t     seed;
    char         expect_class[96];
    int          n_params;
    sim_param_t  params[SIM_MAX_PARAMS];
    int          n_ops, cap_ops;
    sim_op_t    *ops;
} scenario_t;

void     sc_init (scenario_t *sc);
void     sc_free (scenario_t *sc);
void     sc_set (scenario_t *sc, const char *key, int64_t val);
int64_t  sc_get (const scenario_t *sc, const char *key, int64_t dflt);
sim_op_t *sc_add (scenario_t *sc, int kind, int n, ...);
sim_op_t *sc_addv (scenario_t *sc, int kind, int n, const int64_t *a);

/* total, non-negative modulo: lets an interpreter accept any integer */
static inline int64_t sim_mod (int64_t v, int64_t m)
{
    int64_t r;
    if (m <= 0) return 0;
    r = v % m;
    return r < 0 ? r + m : r;
}
static inline int64_t sim_clamp (int64_t v, int64_t lo, int64_t hi)
{
    return v < lo ? lo : v > hi ? hi : v;
}

/* ---------------------------------------------------------------- result */

typedef struct
{
    uint64_t hash;              /* event hash: determinism witness        */
    uint64_t key;               /* what makes this run distinct (world-defined: realised
                                   interleaving, fault positions reached, state set ...) */
    int      nontrivial;        /* world-defined rule, stated in the evidence        */
    int      violated;
    char     property[8];
    char     klass[96];         /* short stable name of violation class   */
    char     site[160];         /* stable description used to match known findings */
    char     detail[400];       /* free text, may contain numbers          */
    int      op_index;          /* op at which it was seen                 */
} result_t;

/* counters / rare-branch probes, aggregated by the driver */
void sim_count (const char *name, int64_t n);
/* a distinct-value set probe: counts how many distinct 64-bit keys were seen
 * under this name in this process (bounded bitmap, conservative) */
void sim_distinct (const char *name, uint64_t key);

/* record a violation in the current run (first one wins) */
void sim_violation (result_t *res, const char *property, const char *klass,
                    const char *site, const char *fmt, ...)
    __attribute__ ((format (printf, 5, 6)));

/* --------------------------------------------------------------- world */

typedef struct
{
    const char  *name;
    const char **op_names;       /* indexed by kind */
    int          n_op_kinds;
    /* tier: 0 quick, 1 thorough; property selects workload flavour (may be NULL) */
    void (*generate) (uint64_t seed, int tier, const char *property, scenario_t *sc);
    void (*execute)  (const scenario_t *sc, const char *property, result_t *res);
    /* one-line JSON-ish human sample of a scenario for evidence; may be NULL */
    void (*init)     (void);
} world_t;

int sim_main (int argc, char **argv, const world_t *w);

void sc_print (const scenario_t *sc, const world_t *w, const char *property, FILE *f);
int  sc_parse (scenario_t *sc, const world_t *w, char *property_out, FILE *f);

/* --------------------------------------------------- allocator wrapper */

enum { FAULT_NONE = 0, FAULT_SINGLE = 1, FAULT_PERSISTENT = 2 };
enum { ENTRY_ANY = 0, ENTRY_MALLOC = 1, ENTRY_CALLOC = 2, ENTRY_REALLOC = 3 };

typedef struct
{
    int      tracking;           /* record live blocks                      */
    int      armed;              /* inside a pixman API call                */
    int      op_index;
    /* fault plan for the current armed window */
    int      fault_mode;         /* FAULT_*                                 */
    int      fault_k;            /* 1-based ordinal of (matching) allocation*/
    int      fault_entry;        /* ENTRY_* restriction                     */
    /* observed */
    int      n_allocs;           /* allocations requested in this window    */
    int      n_matching;         /* ... that match fault_entry              */
    int      n_failed;           /* faults that fired in this window        */
    int      bad_free;           /* free/realloc of unknown pointer, armed  */
    const void *bad_free_site;
    const void *first_fail_site;
    int64_t  live_blocks;
    int64_t  live_bytes;
    int64_t  total_allocs;
    int64_t  total_failed;
} sim_alloc_t;

extern sim_alloc_t sim_alloc;

void  sim_alloc_reset (void);                 /* forget all live blocks (new run) */
void  sim_alloc_enter (int op_index, int fault_mode, int fault_k, int fault_entry);
void  sim_alloc_leave (void);
/* extend an outage: keep failing across calls */
int   sim_alloc_is_live (const void *p);      /* p is a tracked block           */
/* mark a tracked block as legitimately owned by the harness (e.g. returned
 * filter tables): it is removed from the live table */
void  sim_alloc_disown (const void *p);
/* iterate live blocks for leak reports: returns count, fills up to n sites */
int   sim_alloc_live_sites (const void **sites, size_t *sizes, int *ops, int n);
void  sim_fault_site_stats (void);            /* emits per-site counters         */

/* ---------------------------------------------------------------- arena */

typedef struct arena_buf
{
    uint8_t *data;        /* the storage handed to pixman                      */
    size_t   size;
    uint8_t *map;         /* whole mapping, including guard pages               */
    size_t   map_size;
    uint8_t *slack_lo;    /* canary bytes below data                            */
    size_t   slack_lo_n;
    uint8_t *slack_hi;    /* canary bytes above data                            */
    size_t   slack_hi_n;
    uint8_t  canary;
    int      guarded;
    struct arena_buf *next;
} arena_buf_t;

/* guarded: exact size, flush against a PROT_NONE page at the end selected
 * by flush_hi, alignment of data start modulo 64 == misalign (multiple of 4,
 * honoured exactly when !flush_hi; when flush_hi the end is placed so that
 * (start mod 64) == misalign with < 64 bytes of poisoned canary slack).
 * plain: malloc-backed, start alignment modulo 64 == misalign. */
arena_buf_t *arena_new (size_t size, int guarded, int flush_hi, unsigned misalign);
/* returns 0 if all canaries intact, else offset info in *where */
int          arena_check (const arena_buf_t *b, long *where);
void         arena_free (arena_buf_t *b);
void         arena_free_all (void);
arena_buf_t *arena_find (const void *p);    /* buffer whose data contains p */

/* ---------------------------------------------------------------- chains */

#define CHAIN_FAST    1
#define CHAIN_MMX     2
#define CHAIN_SSE2    4
#define CHAIN_SSSE3   8
#define CHAIN_WHOLEOPS 16      /* set = wholeops disabled, like PIXMAN_DISABLE */
#define N_CHAINS 32

/* chain mask bits say what is DISABLED (mask 0 = everything the CPU offers).
 * chain 15 = general only, chain 31 = general only without wholeops. */
void chains_init (void);
pixman_implementation_t *chain_get (int mask);
void chain_install (int mask);               /* sets global_implementation */
const char *chain_name (int mask);
/* run fn(arg) on a fresh pthread (zeroed thread-local dispatch cache) */
void run_on_fresh_thread (void (*fn) (void *), void *arg);

/* ---------------------------------------------------------------- digest */

/* mask of the defined bits of one pixel of this format (channel bits only) */
uint32_t fmt_defined_mask (pixman_format_code_t fmt);
uint32_t fmt_alpha_mask (pixman_format_code_t fmt);
uint32_t fmt_rgb_mask (pixman_format_code_t fmt);

/* compare two buffers describing images of the same geometry on the given
 * per-pixel mask; every byte that is not part of a pixel (row padding) is
 * compared in full.  stride in bytes (may be negative: buffers are then the
 * lowest-address views).  Returns -1 if equal, else index of first differing
 * byte. */
long buf_compare_masked (const uint8_t *a, const uint8_t *b,
                         pixman_format_code_t fmt, int width, int height,
                         int stride_bytes, uint32_t pixmask);
uint64_t buf_hash_masked (uint64_t h, const uint8_t *a,
                          pixman_format_code_t fmt, int width, int height,
                          int stride_bytes, uint32_t pixmask);

/* ------------------------------------------------------- verif points */

typedef void (*sim_point_fn) (int site, const void *obj, int rw, const void *aux);
extern sim_point_fn sim_point_handler;

/* ---------------------------------------------------------------- misc */

extern FILE *sim_proto;     /* protocol stream to the driver */
void sim_log (const char *fmt, ...) __attribute__ ((format (printf, 1, 2)));
extern int sim_verbose;

#endif
