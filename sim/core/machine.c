#include "machine.h"
#include <malloc.h>

const char *mop_names[MOP_N] = {
    "bits", "solid", "linear", "radial", "conical",
    "ref", "unref", "set_destroy",
    "set_transform", "set_filter", "set_repeat", "set_clip32", "set_clip16",
    "set_client_clip", "set_source_clipping", "set_alpha_map", "set_component_alpha",
    "set_accessors", "set_indexed", "set_dither", "set_dither_offset",
    "composite", "fill_boxes", "fill_rects", "fill", "blt",
    "add_traps", "add_trapezoids", "rasterize_trap", "composite_traps",
    "add_tris", "composite_tris",
    "gc_create", "gc_destroy", "gc_freeze", "gc_thaw", "gc_insert", "gc_remove",
    "glyphs",
    "r_init_rects", "r_binop", "r_rectop", "r_copy", "r_inverse", "r_conv", "r_fini",
    "filter_create", "compute_region",
    "scribble", "alias", "bits_huge", "bits_yuv", "r_from_image", "bits_refused", "r_shared_binop",
};

const pixman_format_code_t sim_formats[] = {
    PIXMAN_a8r8g8b8, PIXMAN_x8r8g8b8, PIXMAN_a8b8g8r8, PIXMAN_x8b8g8r8,
    PIXMAN_b8g8r8a8, PIXMAN_b8g8r8x8, PIXMAN_r8g8b8a8, PIXMAN_r8g8b8x8,
    PIXMAN_x14r6g6b6, PIXMAN_x2r10g10b10, PIXMAN_a2r10g10b10, PIXMAN_x2b10g10r10,
    PIXMAN_a2b10g10r10, PIXMAN_a8r8g8b8_sRGB, PIXMAN_r8g8b8, PIXMAN_b8g8r8,
    PIXMAN_r5g6b5, PIXMAN_b5g6r5, PIXMAN_a1r5g5b5, PIXMAN_x1r5g5b5,
    PIXMAN_a1b5g5r5, PIXMAN_x1b5g5r5, PIXMAN_a4r4g4b4, PIXMAN_x4r4g4b4,
    PIXMAN_a4b4g4r4, PIXMAN_x4b4g4r4, PIXMAN_a8, PIXMAN_r3g3b2,
    PIXMAN_b2g3r3, PIXMAN_a2r2g2b2, PIXMAN_a2b2g2r2, PIXMAN_c8,
    PIXMAN_g8, PIXMAN_x4a4, PIXMAN_a4, PIXMAN_r1g2b1,
    PIXMAN_b1g2r1, PIXMAN_a1r1g1b1, PIXMAN_a1b1g1r1, PIXMAN_c4,
    PIXMAN_g4, PIXMAN_a1, PIXMAN_g1, PIXMAN_rgba_float, PIXMAN_rgb_float,
};
const int sim_n_formats = sizeof sim_formats / sizeof sim_formats[0];

const pixman_op_t sim_ops[] = {
    PIXMAN_OP_CLEAR, PIXMAN_OP_SRC, PIXMAN_OP_DST, PIXMAN_OP_OVER, PIXMAN_OP_OVER_REVERSE,
    PIXMAN_OP_IN, PIXMAN_OP_IN_REVERSE, PIXMAN_OP_OUT, PIXMAN_OP_OUT_REVERSE, PIXMAN_OP_ATOP,
    PIXMAN_OP_ATOP_REVERSE, PIXMAN_OP_XOR, PIXMAN_OP_ADD, PIXMAN_OP_SATURATE,
    PIXMAN_OP_DISJOINT_CLEAR, PIXMAN_OP_DISJOINT_SRC, PIXMAN_OP_DISJOINT_DST, PIXMAN_OP_DISJOINT_OVER,
    PIXMAN_OP_DISJOINT_OVER_REVERSE, PIXMAN_OP_DISJOINT_IN, PIXMAN_OP_DISJOINT_IN_REVERSE,
    PIXMAN_OP_DISJOINT_OUT, PIXMAN_OP_DISJOINT_OUT_REVERSE, PIXMAN_OP_DISJOINT_ATOP,
    PIXMAN_OP_DISJOINT_ATOP_REVERSE, PIXMAN_OP_DISJOINT_XOR,
    PIXMAN_OP_CONJOINT_CLEAR, PIXMAN_OP_CONJOINT_SRC, PIXMAN_OP_CONJOINT_DST, PIXMAN_OP_CONJOINT_OVER,
    PIXMAN_OP_CONJOINT_OVER_REVERSE, PIXMAN_OP_CONJOINT_IN, PIXMAN_OP_CONJOINT_IN_REVERSE,
    PIXMAN_OP_CONJOINT_OUT, PIXMAN_OP_CONJOINT_OUT_REVERSE, PIXMAN_OP_CONJOINT_ATOP,
    PIXMAN_OP_CONJOINT_ATOP_REVERSE, PIXMAN_OP_CONJOINT_XOR,
    PIXMAN_OP_MULTIPLY, PIXMAN_OP_SCREEN, PIXMAN_OP_OVERLAY, PIXMAN_OP_DARKEN, PIXMAN_OP_LIGHTEN,
    PIXMAN_OP_COLOR_DODGE, PIXMAN_OP_COLOR_BURN, PIXMAN_OP_HARD_LIGHT, PIXMAN_OP_SOFT_LIGHT,
    PIXMAN_OP_DIFFERENCE, PIXMAN_OP_EXCLUSION, PIXMAN_OP_HSL_HUE, PIXMAN_OP_HSL_SATURATION,
    PIXMAN_OP_HSL_COLOR, PIXMAN_OP_HSL_LUMINOSITY,
};
const int sim_n_ops = sizeof sim_ops / sizeof sim_ops[0];

void (*machine_accessor_hook) (void);
__thread machine_t *machine_current;

const char *
sim_format_name (pixman_format_code_t f)
{
    static char buf[32];
    snprintf (buf, sizeof buf, "fmt%08x", (unsigned)f);
    return buf;
}

/* ------------------------------------------------------------ palettes
 * same construction as test/utils.c:initialize_palette, but with a fixed
 * little PRNG so that palette #k is a constant */
#define N_PALETTES 3
static pixman_indexed_t palettes[N_PALETTES][2][4];    /* [k][is_rgb][depth 1,4,8 -> 0,1,2] */
static int palettes_ready;

/* A palette pixman can work with is a consistent one: looking a palette
 * colour up through ent[] gives back its own index (test/utils.c's
 * initialize_palette guarantees the same), otherwise even reading a pixel
 * and writing it back changes it. */
static void
build_palette (pixman_indexed_t *pal, uint32_t depth, int is_rgb, uint64_t seed)
{
    uint32_t i, mask = (1u << depth) - 1, count = mask + 1;
    uint64_t x = seed;
    uint32_t off = (uint32_t)(sim_splitmix (&x) & 0x7fff);
    memset (pal, 0, sizeof *pal);
    for (i = 0; i < 32768; ++i)
	pal->ent[i] = (pixman_index_type)(sim_splitmix (&x) & mask);
    for (i = 0; i < count; ++i)
    {
	uint32_t r, g, b;
	uint32_t low = (uint32_t)sim_splitmix (&x);
	if (is_rgb)
	{
	    uint32_t key = (i * 127u + off) & 0x7fff;         /* injective for i < 258 */
	    r = ((key >> 10) & 31) << 3 | (low & 7); g = ((key >> 5) & 31) << 3 | ((low >> 3) & 7); b = (key & 31) << 3 | ((low >> 6) & 7);
	    pal->ent[key] = (pixman_index_type)i;
	}
	else
	{
	    uint32_t v = depth == 8 ? ((i * 77u + off) & 0xff) : depth == 4 ? (((i * 7u + off) & 15) * 17) : (((i + off) & 1) * 255);
	    r = g = b = v;
	    pal->ent[((r * 153 + g * 301 + b * 58) >> 2) & 0x7fff] = (pixman_index_type)i;
	}
	pal->rgba[i] = 0xff000000u | (r << 16) | (g << 8) | b;
    }
}

static const pixman_indexed_t *
get_palette (int k, pixman_format_code_t fmt)
{
    int is_rgb = PIXMAN_FORMAT_TYPE (fmt) == PIXMAN_TYPE_COLOR;
    int bpp = PIXMAN_FORMAT_BPP (fmt);
    int d = bpp == 1 ? 0 : bpp == 4 ? 1 : 2;
    if (!palettes_ready)
    {
	int a, b, c;
	static const int depths[3] = { 1, 4, 8 };
	for (a = 0; a < N_PALETTES; a++)
	    for (b = 0; b < 2; b++)
		for (c = 0; c < 3; c++)
		    build_palette (&palettes[a][b][c], depths[c], b, 1000 + a * 16 + b * 4 + c);
	palettes_ready = 1;
    }
    return &palettes[sim_mod (k, N_PALETTES)][is_rgb][d];
}

static int
fmt_is_indexed (pixman_format_code_t fmt)
{
    return PIXMAN_FORMAT_TYPE (fmt) == PIXMAN_TYPE_COLOR || PIXMAN_FORMAT_TYPE (fmt) == PIXMAN_TYPE_GRAY;
}

/* ------------------------------------------------------------ callbacks */

static int
in_slot_storage (const mslot_t *s, const uint8_t *p, int size)
{
    if (!s->used || s->kind != MOP_BITS || !s->lowest) return 0;
    return p >= s->lowest && p + size <= s->lowest + s->storage;
}

static void
check_access (const void *p, int size, const char *what)
{
    machine_t *m = machine_current;
    int i;
    if (!m) return;
    m->acc_calls++;
    for (i = 0; i < m->n_active; i++)
    {
	int s = m->active[i];
	if (s >= 0 && in_slot_storage (&m->img[s], p, size)) goto ok;
    }
    /* glyph images and temporary images created by pixman itself have
     * accessors only if copied from ours; they live in pixman's own heap
     * allocations, which is allowed ("its own allocations").  Anything that
     * lies inside one of OUR arena buffers but not in a participating image,
     * or in no known buffer at all while the wrapper does not know the
     * block either, is a violation. */
    if (sim_alloc.tracking)
    {
	/* inside a block pixman allocated? (we only know block starts: accept
	 * when some live block contains the address) */
	extern int sim_alloc_contains (const void *p, size_t n);
	if (sim_alloc_contains (p, (size_t)size)) goto ok;
    }
    if (!m->acc_violation)
    {
	arena_buf_t *b = arena_find (p);
	m->acc_violation = 1;
	snprintf (m->acc_detail, sizeof m->acc_detail, "%s of %d bytes %s during op %d (offset %ld from the start of the %zu-byte storage of slot %d)",
		  what, size, b ? "inside the storage of a non-participating image" : "outside any image storage", m->cur_op,
		  m->n_active ? (long)((const uint8_t *)p - m->img[m->active[0]].lowest) : 0L,
		  m->n_active ? m->img[m->active[0]].storage : (size_t)0, m->n_active ? m->active[0] : -1);
    }
ok:
    if (machine_accessor_hook) machine_accessor_hook ();
}

static uint32_t
acc_read (const void *src, int size)
{
    check_access (src, size, "read");
    if (machine_current && machine_current->acc_violation)
    {
	/* do not actually touch memory we have just judged out of bounds */
	arena_buf_t *b = arena_find (src);
	if (!b) return 0;
    }
    /* The callbacks ARE the storage layer (think of a byte-swapping frame
     * buffer wrapper): what sits in memory is the pixel value xor 0x5a in every
     * byte.  An access that bypasses the callbacks therefore shows in the
     * pixels, not only in a call counter. */
    switch (size)
    {
    case 1: return *(const uint8_t *)src ^ 0x5au;
    case 2: return *(const uint16_t *)src ^ 0x5a5au;
    case 4: return *(const uint32_t *)src ^ 0x5a5a5a5au;
    default: return 0;
    }
}

static void
acc_write (void *dst, uint32_t value, int size)
{
    check_access (dst, size, "write");
    if (machine_current && machine_current->acc_violation)
    {
	arena_buf_t *b = arena_find (dst);
	if (!b) return;
    }
    switch (size)
    {
    case 1: *(uint8_t *)dst = (uint8_t)(value ^ 0x5au); break;
    case 2: *(uint16_t *)dst = (uint16_t)(value ^ 0x5a5au); break;
    case 4: *(uint32_t *)dst = value ^ 0x5a5a5a5au; break;
    default: break;
    }
}

static void
destroy_cb (pixman_image_t *image, void *data)
{
    machine_t *m = machine_current;
    int i;
    if (!m) return;
    m->cb_total++;
    for (i = 0; i < M_NIMG; i++)
	if (m->img[i].img == image && (void *)&m->img[i] == data)
	{
	    mslot_t *s = &m->img[i];
	    s->destroy_calls++;
	    /* the callback is told about an image that is going away, not about one that has gone:
	     * what the getters say is still true and the pixels can still be read (a caller that saves
	     * them, or frees its own buffer through get_data(), relies on that) */
	    if (s->kind == MOP_BITS && s->lowest && !s->yuv && !s->tile && s->storage && s->storage < ((size_t)1 << 30))
	    {
		volatile const uint8_t *px = (const uint8_t *)pixman_image_get_data (image);
		int st = pixman_image_get_stride (image);
		if (pixman_image_get_width (image) != s->w || pixman_image_get_height (image) != s->h || st != s->stride || !px)
		    m->cb_unexpected++;
		else
		{
		    const volatile uint8_t *lo = st < 0 ? px + (long)st * (s->h - 1) : px;
		    volatile unsigned sink = (unsigned)lo[0] + lo[s->storage - 1];       /* ASan objects if the storage is gone */
		    (void)sink;
		}
	    }
	    return;
	}
    m->cb_unexpected++;
}

/* ------------------------------------------------------------ machine */

machine_t *
machine_new (int faults_enabled, int guarded, int chain)
{
    machine_t *m = calloc (1, sizeof *m);
    int i;
    if (!m) { fprintf (stderr, "pxsim: out of memory\n"); _exit (2); }
    m->faults_enabled = faults_enabled;
    m->guarded = guarded;
    m->chain = chain;
    for (i = 0; i < M_NIMG; i++) m->img[i].has_alpha = -1;
    return m;
}

static void
slot_release_storage (mslot_t *s)
{
    if (s->buf) arena_free (s->buf);
    s->buf = NULL;
}

/* a slot is being reused: its old storage may still be seen through an alias image */
static void
slot_retire_storage (machine_t *m, mslot_t *s)
{
    if (!s->buf) return;
    if (m->n_retired < 64) m->retired[m->n_retired++] = s->buf;
    else arena_free (s->buf);
    s->buf = NULL;
}

static void
slot_clear (mslot_t *s)
{
    slot_release_storage (s);
    memset (s, 0, sizeof *s);
    s->has_alpha = -1;
}

/* drop one user reference; bookkeeping of the model happens here */
static int
slot_unref (machine_t *m, int i)
{
    mslot_t *s = &m->img[i];
    int freed;
    if (!s->used || s->refs <= 0) return 0;
    freed = pixman_image_unref (s->img);
    s->refs--;
    if (s->refs == 0)
    {
	/* the user no longer holds the image; if it is still attached as an
	 * alpha map somewhere, pixman keeps it (and its pixels) alive: the
	 * storage must outlive it, so the slot lingers until machine_free */
	if (s->is_alpha_of == 0)
	{
	    if (s->has_alpha >= 0)
	    {
		m->img[s->has_alpha].is_alpha_of--;
		s->has_alpha = -1;
	    }
	    s->used = 0;
	    s->img = NULL;
	    /* storage is released lazily at machine_free: a glyph cache or a
	     * pending composite may not reference it any more, but keeping it
	     * mapped makes a use-after-free of caller pixels impossible to
	     * confuse with a pixman bug */
	}
    }
    return freed;
}

void
machine_free (machine_t *m)
{
    int i, pass;
    machine_t *prev = machine_current;
    machine_current = m;
    sim_alloc_enter (-1, FAULT_NONE, 0, ENTRY_ANY);
    for (i = 0; i < M_NGC; i++)
	if (m->gc[i])
	{
	    while (m->gc_freeze[i] > 0) { pixman_glyph_cache_thaw (m->gc[i]); m->gc_freeze[i]--; }
	    pixman_glyph_cache_destroy (m->gc[i]);
	    m->gc[i] = NULL;
	}
    /* owners first, so that attached alpha maps lose their owners before
     * their own last reference goes */
    for (pass = 0; pass < 2; pass++)
	for (i = 0; i < M_NIMG; i++)
	{
	    mslot_t *s = &m->img[i];
	    if (!s->img) continue;
	    if (pass == 0 && s->is_alpha_of > 0) continue;
	    while (s->refs > 0) { pixman_image_unref (s->img); s->refs--; }
	    if (s->has_alpha >= 0) { m->img[s->has_alpha].is_alpha_of--; s->has_alpha = -1; }
	    s->img = NULL;
	}
    for (i = 0; i < M_NREG; i++)
    {
	if (m->r32_init[i]) pixman_region32_fini (&m->r32[i]);
	if (m->r16_init[i]) pixman_region_fini (&m->r16[i]);
    }
    sim_alloc_leave ();
    for (i = 0; i < M_NIMG; i++) slot_release_storage (&m->img[i]);
    for (i = 0; i < m->n_retired; i++) arena_free (m->retired[i]);
    machine_current = prev;
    free (m);
}

/* ------------------------------------------------------------ op helpers */

#define A(i) ((i) < n ? a[(i)] : 0)

/* property kinds of the model */
enum { P_TRANSFORM, P_FILTER, P_REPEAT, P_CLIP, P_CLIENT_CLIP, P_SOURCE_CLIPPING, P_ALPHA_MAP,
       P_COMPONENT_ALPHA, P_ACCESSORS, P_INDEXED, P_DITHER, P_DITHER_OFFSET, P_N };

static int
prop_kind_of (int mop)
{
    switch (mop)
    {
    case MOP_SET_TRANSFORM: return P_TRANSFORM;
    case MOP_SET_FILTER: return P_FILTER;
    case MOP_SET_REPEAT: return P_REPEAT;
    case MOP_SET_CLIP32: case MOP_SET_CLIP16: return P_CLIP;
    case MOP_SET_CLIENT_CLIP: return P_CLIENT_CLIP;
    case MOP_SET_SOURCE_CLIPPING: return P_SOURCE_CLIPPING;
    case MOP_SET_ALPHA_MAP: return P_ALPHA_MAP;
    case MOP_SET_COMPONENT_ALPHA: return P_COMPONENT_ALPHA;
    case MOP_SET_ACCESSORS: return P_ACCESSORS;
    case MOP_SET_INDEXED: return P_INDEXED;
    case MOP_SET_DITHER: return P_DITHER;
    case MOP_SET_DITHER_OFFSET: return P_DITHER_OFFSET;
    default: return -1;
    }
}

static void
fill_bytes (uint8_t *p, size_t n, uint64_t seed, pixman_format_code_t fmt)
{
    uint64_t x = seed * 0x9e3779b97f4a7c15ull + 12345;
    size_t i;
    if (PIXMAN_FORMAT_BPP (fmt) > 32)
    {
	/* float formats: valid premultiplied pixels - every component in [0,1], colour <= alpha,
	 * a few exact 0 / 1, never NaN, never -0.  (Out-of-range floats are not pictures: a
	 * no-op operator that goes through the float pipeline clamps them, a skipped one
	 * does not.) */
	float *f = (float *)p;
	int per = PIXMAN_FORMAT_BPP (fmt) == 128 ? 4 : 3, c = 0;
	float alpha = 1.0f;
	for (i = 0; i + 4 <= n; i += 4)
	{
	    uint64_t r = sim_splitmix (&x);
	    uint32_t k = (uint32_t)(r & 0xffff);
	    float v = (r >> 20 & 7) == 0 ? 0.0f : (r >> 20 & 7) == 1 ? 1.0f : k / 65535.0f;
	    /* rgba_float stores r g b a: draw alpha first for each pixel from the same stream */
	    if (per == 4 && c == 0) { uint64_t r2 = sim_splitmix (&x); alpha = (r2 >> 9 & 3) == 0 ? 1.0f : (r2 & 0xffff) / 65535.0f; }
	    if (per == 4) f[i / 4] = c == 3 ? alpha : v * alpha;
	    else f[i / 4] = v;
	    c = (c + 1) % per;
	}
	return;
    }
    for (i = 0; i + 8 <= n; i += 8)
    {
	uint64_t r = sim_splitmix (&x);
	/* some runs of opaque / transparent / repeated pixels make the
	 * special cases in the combiners and fast paths reachable */
	switch ((r >> 58) & 7)
	{
	case 0: r = 0; break;
	case 1: r = ~(uint64_t)0; break;
	case 2: r |= 0xff000000ff000000ull; break;
	default: break;
	}
	memcpy (p + i, &r, 8);
    }
    for (; i < n; i++) p[i] = (uint8_t)sim_splitmix (&x);
}

/* Pixel-granular content: short runs (1-5 pixels) of all-zero, all-one, opaque-with-random-colour
 * and random pixels, so that the "this group of four is entirely opaque / entirely transparent /
 * mixed" shortcuts of the vector loops meet every mixture at every position. */
static void
fill_runs (uint8_t *p, size_t n, uint64_t seed, pixman_format_code_t fmt)
{
    uint64_t x = seed * 0x9e3779b97f4a7c15ull + 777;
    size_t unit = (size_t)PIXMAN_FORMAT_BPP (fmt) / 8, i = 0;
    uint32_t amask = fmt_alpha_mask (fmt);
    while (i + unit <= n)
    {
	uint64_t r = sim_splitmix (&x);
	int len = 1 + (int)(r >> 60) % 5, kind = (int)(r >> 56) & 7, k;
	for (k = 0; k < len && i + unit <= n; k++, i += unit)
	{
	    uint32_t v = (uint32_t)sim_splitmix (&x);
	    switch (kind)
	    {
	    case 0: case 1: v = 0; break;
	    case 2: case 3: v = 0xffffffffu; break;
	    case 4: case 5: v |= amask; break;       /* opaque, any colour (any value when there is no alpha) */
	    default: break;
	    }
	    memcpy (p + i, &v, unit);
	}
    }
    for (; i < n; i++) p[i] = (uint8_t)sim_splitmix (&x);
}

/* geometry of a bits image from the op arguments */
typedef struct { int fmt_idx, w, h, stride, neg, flags; unsigned misalign; uint64_t fillseed; pixman_format_code_t fmt; int extra_rows; } bits_geom_t;

static void
decode_bits (const int64_t *a, int n, bits_geom_t *g)
{
    int bpp, minstride;
    g->fmt_idx = (int)sim_mod (A (1), sim_n_formats);
    g->fmt = sim_formats[g->fmt_idx];
    bpp = PIXMAN_FORMAT_BPP (g->fmt);
    g->w = (int)sim_clamp (A (2), 1, 40000);
    g->h = (int)sim_clamp (A (3), 1, 40000);
    /* keep a single buffer below 4 MB: the simulator is about schedules and
     * faults, not about huge images */
    while ((int64_t)g->w * g->h * bpp / 8 > (4 << 20)) { if (g->h > 1) g->h = (g->h + 1) / 2; else g->w /= 2; }
    minstride = (int)((((int64_t)g->w * bpp + 31) / 32) * 4);
    /* row padding; 128-bpp images must keep rows 16-byte aligned (API precondition) */
    g->stride = minstride + (bpp == 128 ? 16 : 4) * (int)sim_clamp (A (4), 0, 4);
    g->neg = (int)sim_mod (A (5), 2);
    g->misalign = (unsigned)(sim_mod (A (6), 16) * 4);
    g->flags = (int)sim_mod (A (7), 16);
    g->fillseed = (uint64_t)A (8);
    g->extra_rows = 0;
    if (bpp > 32) g->flags &= ~1;          /* accessors only work for <= 32 bpp */
}

/* yuy2: packed, 16 bits per pixel.  yv12: a plane of h rows of Y bytes, then two planes of
 * h/2 rows of stride/2 bytes (V, U): stride a multiple of 8 bytes, h even, 3/2 * stride * h bytes */
static void
decode_yuv (const int64_t *a, int n, bits_geom_t *g)
{
    int planar = (int)sim_mod (A (1), 2);
    memset (g, 0, sizeof *g);
    g->fmt = planar ? PIXMAN_yv12 : PIXMAN_yuy2;
    g->fmt_idx = 0;
    g->w = 2 * (int)sim_clamp (A (2), 1, 40);
    g->h = 2 * (int)sim_clamp (A (3), 1, 20);
    if (planar) g->stride = ((g->w + 7) & ~7) + 8 * (int)sim_clamp (A (4), 0, 3);
    else g->stride = ((g->w * 16 + 31) / 32) * 4 + 4 * (int)sim_clamp (A (4), 0, 3);
    g->extra_rows = planar ? g->h / 2 : 0;
    g->misalign = (unsigned)(sim_mod (A (5), 16) * 4);
    g->flags = (int)sim_mod (A (6), 16) & 8;        /* which end of the arena buffer */
    g->fillseed = (uint64_t)A (7);
}

static pixman_image_t *
make_bits_image (const bits_geom_t *g, arena_buf_t **buf_out, uint8_t **lowest_out, int guarded, const uint8_t *copy_from,
		 uint8_t *share_lowest)
{
    pixman_image_t *img;
    size_t storage = (size_t)g->stride * (g->h + g->extra_rows);
    arena_buf_t *buf = NULL;
    uint8_t *lowest;
    uint32_t *bits;
    if (share_lowest) lowest = share_lowest;
    else
    {
	buf = arena_new (storage, guarded, (g->flags >> 3) & 1, g->misalign);
	lowest = buf->data;
	if (copy_from) memcpy (lowest, copy_from, storage);
	else fill_bytes (lowest, storage, g->fillseed, g->fmt);
    }
    bits = (uint32_t *)(g->neg ? lowest + (size_t)g->stride * (g->h - 1) : lowest);
    img = pixman_image_create_bits_no_clear (g->fmt, g->w, g->h, bits, g->neg ? -g->stride : g->stride);
    if (!img)
    {
	if (buf) arena_free (buf);
	return NULL;
    }
    if (buf_out) *buf_out = buf;
    if (lowest_out) *lowest_out = lowest;
    return img;
}

static void
decode_stops (const int64_t *a, int n, int at, pixman_gradient_stop_t *stops, int *n_stops)
{
    int cnt = (int)sim_clamp (A (at), 1, 16), i;
    int64_t prev = 0;
    for (i = 0; i < cnt; i++)
    {
	int b = at + 1 + 5 * i;
	int64_t pos = sim_clamp (A (b), 0, 65536);
	if (pos < prev) pos = prev;               /* non-decreasing positions */
	prev = pos;
	stops[i].x = (pixman_fixed_t)pos;
	stops[i].color.alpha = (uint16_t)sim_mod (A (b + 1), 65536);
	stops[i].color.red = (uint16_t)sim_mod (A (b + 2), 65536);
	stops[i].color.green = (uint16_t)sim_mod (A (b + 3), 65536);
	stops[i].color.blue = (uint16_t)sim_mod (A (b + 4), 65536);
    }
    *n_stops = cnt;
}

#define FIX(v) ((pixman_fixed_t)sim_clamp ((v), INT32_MIN, INT32_MAX))

static pixman_image_t *
make_nonbits_image (int kind, const int64_t *a, int n)
{
    pixman_gradient_stop_t stops[16];
    int ns;
    switch (kind)
    {
    case MOP_SOLID:
    {
	pixman_color_t c;
	c.alpha = (uint16_t)sim_mod (A (1), 65536); c.red = (uint16_t)sim_mod (A (2), 65536);
	c.green = (uint16_t)sim_mod (A (3), 65536); c.blue = (uint16_t)sim_mod (A (4), 65536);
	return pixman_image_create_solid_fill (&c);
    }
    case MOP_LINEAR:
    {
	pixman_point_fixed_t p1 = { FIX (A (1)), FIX (A (2)) }, p2 = { FIX (A (3)), FIX (A (4)) };
	decode_stops (a, n, 5, stops, &ns);
	return pixman_image_create_linear_gradient (&p1, &p2, stops, ns);
    }
    case MOP_RADIAL:
    {
	pixman_point_fixed_t c1 = { FIX (A (1)), FIX (A (2)) }, c2 = { FIX (A (3)), FIX (A (4)) };
	decode_stops (a, n, 7, stops, &ns);
	return pixman_image_create_radial_gradient (&c1, &c2, (pixman_fixed_t)sim_clamp (A (5), 0, INT32_MAX),
						    (pixman_fixed_t)sim_clamp (A (6), 0, INT32_MAX), stops, ns);
    }
    case MOP_CONICAL:
    {
	pixman_point_fixed_t c = { FIX (A (1)), FIX (A (2)) };
	decode_stops (a, n, 4, stops, &ns);
	return pixman_image_create_conical_gradient (&c, FIX (A (3)), stops, ns);
    }
    }
    return NULL;
}

/* pixman_bool_t is an int: "true" is any non-zero value, not just 1 */
static pixman_bool_t
truthy (int64_t v)
{
    static const pixman_bool_t vals[4] = { 0, 1, 2, -1 };
    return vals[sim_mod (v, 4)];
}

/* Apply one property op to an image.  alpha_img is the image to attach for
 * P_ALPHA_MAP (NULL to detach).  Returns the API's status (1 for void). */
static int
apply_prop (pixman_image_t *img, pixman_format_code_t fmt, int is_bits, int mop, const int64_t *a, int n, pixman_image_t *alpha_img)
{
    switch (mop)
    {
    case MOP_SET_TRANSFORM:
    {
	pixman_transform_t t;
	int i;
	if (sim_mod (A (1), 2)) return pixman_image_set_transform (img, NULL);
	for (i = 0; i < 9; i++) t.matrix[i / 3][i % 3] = FIX (A (2 + i));
	return pixman_image_set_transform (img, &t);
    }
    case MOP_SET_FILTER:
    {
	int f = (int)sim_mod (A (1), 7);
	pixman_fixed_t params[4 + 4 * 5 + 4 * 5];
	int cw = (int)sim_clamp (A (2), 1, 5), ch = (int)sim_clamp (A (3), 1, 5);
	int xb = (int)sim_clamp (A (4), 0, 2), yb = (int)sim_clamp (A (5), 0, 2), np = 0, i, cnt;
	if (f == PIXMAN_FILTER_CONVOLUTION)
	{
	    params[np++] = pixman_int_to_fixed (cw); params[np++] = pixman_int_to_fixed (ch);
	    cnt = cw * ch;
	    for (i = 0; i < cnt; i++) params[np++] = FIX (A (6 + i));
	    return pixman_image_set_filter (img, f, params, np);
	}
	if (f == PIXMAN_FILTER_SEPARABLE_CONVOLUTION)
	{
	    params[np++] = pixman_int_to_fixed (cw); params[np++] = pixman_int_to_fixed (ch);
	    params[np++] = pixman_int_to_fixed (xb); params[np++] = pixman_int_to_fixed (yb);
	    cnt = (1 << xb) * cw + (1 << yb) * ch;
	    for (i = 0; i < cnt; i++) params[np++] = FIX (A (6 + i));
	    return pixman_image_set_filter (img, f, params, np);
	}
	return pixman_image_set_filter (img, f, NULL, 0);
    }
    case MOP_SET_REPEAT:
	pixman_image_set_repeat (img, (pixman_repeat_t)sim_mod (A (1), 4));
	return 1;
    case MOP_SET_CLIP32:
    {
	pixman_region32_t r;
	pixman_box32_t b[20];
	int cnt = (int)sim_clamp (A (1), -1, 20), i, ok;
	if (cnt < 0) return pixman_image_set_clip_region32 (img, NULL);
	for (i = 0; i < cnt; i++)
	{
	    int64_t x1 = sim_clamp (A (2 + 4 * i), -70000, 70000), y1 = sim_clamp (A (3 + 4 * i), -70000, 70000);
	    int64_t x2 = sim_clamp (A (4 + 4 * i), -70000, 70000), y2 = sim_clamp (A (5 + 4 * i), -70000, 70000);
	    b[i].x1 = x1; b[i].y1 = y1; b[i].x2 = x2; b[i].y2 = y2;
	}
	/* the temporary region is the caller's: built outside the fault window */
	{
	    int armed = sim_alloc.armed; sim_alloc.armed = 0;
	    ok = pixman_region32_init_rects (&r, b, cnt);
	    sim_alloc.armed = armed;
	}
	if (!ok) return 1;
	ok = pixman_image_set_clip_region32 (img, &r);
	{ int armed = sim_alloc.armed; sim_alloc.armed = 0; pixman_region32_fini (&r); sim_alloc.armed = armed; }
	return ok;
    }
    case MOP_SET_CLIP16:
    {
	pixman_region16_t r;
	pixman_box16_t b[20];
	int cnt = (int)sim_clamp (A (1), -1, 20), i, ok;
	if (cnt < 0) return pixman_image_set_clip_region (img, NULL);
	for (i = 0; i < cnt; i++)
	{
	    b[i].x1 = (int16_t)sim_clamp (A (2 + 4 * i), -32768, 32767); b[i].y1 = (int16_t)sim_clamp (A (3 + 4 * i), -32768, 32767);
	    b[i].x2 = (int16_t)sim_clamp (A (4 + 4 * i), -32768, 32767); b[i].y2 = (int16_t)sim_clamp (A (5 + 4 * i), -32768, 32767);
	}
	{ int armed = sim_alloc.armed; sim_alloc.armed = 0; ok = pixman_region_init_rects (&r, b, cnt); sim_alloc.armed = armed; }
	if (!ok) return 1;
	ok = pixman_image_set_clip_region (img, &r);
	{ int armed = sim_alloc.armed; sim_alloc.armed = 0; pixman_region_fini (&r); sim_alloc.armed = armed; }
	return ok;
    }
    case MOP_SET_CLIENT_CLIP:
	pixman_image_set_has_client_clip (img, truthy (A (1)));
	return 1;
    case MOP_SET_SOURCE_CLIPPING:
	pixman_image_set_source_clipping (img, truthy (A (1)));
	return 1;
    case MOP_SET_ALPHA_MAP:
	pixman_image_set_alpha_map (img, alpha_img, (int16_t)sim_clamp (A (2), -300, 300), (int16_t)sim_clamp (A (3), -300, 300));
	return 1;
    case MOP_SET_COMPONENT_ALPHA:
	pixman_image_set_component_alpha (img, truthy (A (1)));
	return 1;
    case MOP_SET_ACCESSORS:
	if (!is_bits || PIXMAN_FORMAT_BPP (fmt) > 32) return 1;
	/* 0 none, 1 and 3 both, 2 read-only (legal for an image that is only ever read) */
	switch (sim_mod (A (1), 4))
	{
	case 0: pixman_image_set_accessors (img, NULL, NULL); break;
	case 2: pixman_image_set_accessors (img, acc_read, NULL); break;
	default: pixman_image_set_accessors (img, acc_read, acc_write); break;
	}
	return 1;
    case MOP_SET_INDEXED:
	if (!is_bits || !fmt_is_indexed (fmt)) return 1;
	pixman_image_set_indexed (img, get_palette ((int)A (1), fmt));
	return 1;
    case MOP_SET_DITHER:
	pixman_image_set_dither (img, (pixman_dither_t)sim_mod (A (1), 6));
	return 1;
    case MOP_SET_DITHER_OFFSET:
	pixman_image_set_dither_offset (img, (int)sim_clamp (A (1), -100, 100), (int)sim_clamp (A (2), -100, 100));
	return 1;
    }
    return 1;
}

/* ------------------------------------------------------------ lifetime model */

static int
img_ok (machine_t *m, int i)
{
    return i >= 0 && i < M_NIMG && m->img[i].used && m->img[i].refs > 0 && m->img[i].img;
}

static void
ledger_fail (machine_t *m, const char *fmt, int a, int b, int c)
{
    if (m->ledger_violation) return;
    m->ledger_violation = 1;
    snprintf (m->ledger_detail, sizeof m->ledger_detail, fmt, a, b, c);
}

/* model: slot i has lost its last holder (user refs 0, no owner) */
static void
model_release (machine_t *m, int i)
{
    mslot_t *s = &m->img[i];
    m->releasing[i] = 1;
    if (s->has_alpha >= 0)
    {
	int j = s->has_alpha;
	s->has_alpha = -1;
	m->img[j].is_alpha_of--;
	if (m->img[j].refs == 0 && m->img[j].is_alpha_of == 0)
	    model_release (m, j);
    }
}

/* after the op: compare callbacks seen with what the model released */
static void
ledger_settle (machine_t *m)
{
    int i;
    for (i = 0; i < M_NIMG; i++)
    {
	mslot_t *s = &m->img[i];
	if (!s->used) continue;
	if (m->releasing[i])
	{
	    if (s->cb_id && s->destroy_calls != 1)
		ledger_fail (m, "image in slot %d released: destroy callback ran %d times (op %d)", i, s->destroy_calls, m->cur_op);
	    if (!s->cb_id && s->destroy_calls != 0)
		ledger_fail (m, "image in slot %d: a replaced/cleared destroy callback still ran %d times (op %d)", i, s->destroy_calls, m->cur_op);
	    /* the object is gone; its pixel storage stays mapped until machine_free */
	    s->used = 0;
	    s->img = NULL;
	    s->refs = 0;
	    m->releasing[i] = 0;
	}
	else if (s->destroy_calls != 0)
	    ledger_fail (m, "destroy callback of slot %d ran %d times while the image is still referenced (op %d)", i, s->destroy_calls, m->cur_op);
    }
}

/* ------------------------------------------------------------ step: images */

static void
install_new_image (machine_t *m, int slot, int kind, pixman_image_t *img, const sim_op_t *op)
{
    mslot_t *s = &m->img[slot];
    slot_retire_storage (m, s);     /* storage of a long-gone previous tenant */
    memset (s, 0, sizeof *s);
    s->used = 1;
    s->kind = kind;
    s->img = img;
    s->refs = 1;
    s->has_alpha = -1;
    s->create_op = *op;
    s->serial = ++m->serial;
}

/* The block pixman allocated for the pixels must hold the image it describes.  Only
 * looked at when the pixel pointer is the start of that block (free_me == bits). */
static void
check_own_storage (machine_t *m, const mslot_t *s, pixman_image_t *img)
{
    size_t have;
    if (!img->bits.free_me || (void *)img->bits.free_me != (void *)img->bits.bits) return;
    have = malloc_usable_size (img->bits.free_me);
    if (have < s->storage && !m->own_violation)
    {
	m->own_violation = 1;
	snprintf (m->own_detail, sizeof m->own_detail, "%dx%d image, stride %d: describes %zu bytes of pixels, the block pixman allocated holds %zu",
		  img->bits.width, img->bits.height, s->stride, s->storage, have);
    }
}

static void
step_image_op (machine_t *m, const sim_op_t *op, const int64_t *a, int n, mstep_t *st)
{
    int slot = (int)sim_mod (A (0), M_NIMG);
    mslot_t *s = &m->img[slot];

    switch (op->kind)
    {
    case MOP_BITS:
    {
	bits_geom_t g;
	pixman_image_t *img;
	if (s->used) return;
	decode_bits (a, n, &g);
	st->executed = 1;
	st->has_status = 1;
	if (g.flags & 2)
	{
	    /* pixman owns the pixels */
	    img = (g.flags & 4) ? pixman_image_create_bits_no_clear (g.fmt, g.w, g.h, NULL, 0)
				: pixman_image_create_bits (g.fmt, g.w, g.h, NULL, 0);
	    st->ret = img != NULL;
	    if (!img) return;
	    install_new_image (m, slot, MOP_BITS, img, op);
	    s->lib_owned = 1;
	    s->stride = pixman_image_get_stride (img);
	    s->lowest = (uint8_t *)pixman_image_get_data (img);
	    s->storage = (size_t)s->stride * g.h;
	    check_own_storage (m, s, img);
	    /* no_clear leaves the bytes undefined: define them, as a caller must */
	    if (g.flags & 4) fill_bytes (s->lowest, s->storage, g.fillseed, g.fmt);
	}
	else
	{
	    arena_buf_t *buf = NULL;
	    uint8_t *lowest = NULL;
	    m->flush_hi_toggle ^= 1;
	    img = make_bits_image (&g, &buf, &lowest, m->guarded, NULL, NULL);
	    st->ret = img != NULL;
	    if (!img) return;
	    install_new_image (m, slot, MOP_BITS, img, op);
	    s->buf = buf;
	    s->lowest = lowest;
	    s->stride = g.neg ? -g.stride : g.stride;
	    s->storage = (size_t)g.stride * g.h;
	}
	s->fmt = g.fmt; s->fmt_idx = g.fmt_idx; s->w = g.w; s->h = g.h;
	st->created_slot = slot;
	if (fmt_is_indexed (g.fmt))
	    pixman_image_set_indexed (img, get_palette (0, g.fmt));
	if (g.flags & 1)
	{
	    pixman_image_set_accessors (img, acc_read, acc_write);
	    s->accessors = 1;
	}
	return;
    }
    case MOP_BITS_YUV:
    {
	bits_geom_t g;
	arena_buf_t *buf = NULL;
	uint8_t *lowest = NULL;
	pixman_image_t *img;
	if (s->used) return;
	decode_yuv (a, n, &g);
	st->executed = 1;
	st->has_status = 1;
	m->flush_hi_toggle ^= 1;
	img = make_bits_image (&g, &buf, &lowest, m->guarded, NULL, NULL);
	st->ret = img != NULL;
	if (!img) return;
	install_new_image (m, slot, MOP_BITS, img, op);
	s->buf = buf; s->lowest = lowest; s->stride = g.stride; s->storage = (size_t)g.stride * (g.h + g.extra_rows);
	s->fmt = g.fmt; s->fmt_idx = 0; s->w = g.w; s->h = g.h; s->yuv = 1;
	st->created_slot = slot;
	return;
    }
    case MOP_BITS_REFUSED:
    {
	bits_geom_t g;
	arena_buf_t *buf;
	pixman_image_t *img;
	if (s->used) return;
	decode_bits (a, n, &g);
	st->executed = 1;
	st->has_status = 1;
	buf = arena_new ((size_t)g.stride * g.h + 8, 0, 0, 0);
	img = pixman_image_create_bits (g.fmt, g.w, g.h, (uint32_t *)buf->data, g.stride + 1 + (int)sim_mod (A (9), 3));
	st->ret = img == NULL;
	if (img) pixman_image_unref (img);      /* not refused after all: let it go again */
	arena_free (buf);
	return;
    }
    case MOP_BITS_HUGE:
    {
	/* geometry from a small table: storage of 4 GiB and a little (or exactly), one control below 2 GiB.
	 * calloc()ed memory of this size is only backed by pages that get touched. */
	static const struct { pixman_format_code_t fmt; int w, h; } big[] = {
	    { PIXMAN_a8, 65536, 65537 }, { PIXMAN_a8, 65536, 65536 }, { PIXMAN_a8r8g8b8, 32768, 32769 },
	    { PIXMAN_r5g6b5, 32768, 65538 }, { PIXMAN_a8, 32768, 131073 }, { PIXMAN_a8, 40000, 40000 },
	    { PIXMAN_a8r8g8b8, 16384, 65537 }, { PIXMAN_a1, 262144, 131073 },
	};
	int v = (int)sim_mod (A (1), (int)(sizeof big / sizeof big[0])), k;
	pixman_image_t *img;
	if (s->used || !m->allow_huge) return;
	st->executed = 1;
	st->has_status = 1;
	img = pixman_image_create_bits (big[v].fmt, big[v].w, big[v].h, NULL, 0);
	st->ret = img != NULL;
	if (!img) return;               /* refusing is fine */
	install_new_image (m, slot, MOP_BITS, img, op);
	s->lib_owned = 1;
	s->stride = pixman_image_get_stride (img);
	s->lowest = (uint8_t *)pixman_image_get_data (img);
	s->storage = (size_t)s->stride * big[v].h;
	s->fmt = big[v].fmt; s->w = big[v].w; s->h = big[v].h;
	for (k = 0; k < sim_n_formats; k++) if (sim_formats[k] == big[v].fmt) s->fmt_idx = k;
	st->created_slot = slot;
	check_own_storage (m, s, img);
	return;
    }
    case MOP_SOLID: case MOP_LINEAR: case MOP_RADIAL: case MOP_CONICAL:
    {
	pixman_image_t *img;
	if (s->used) return;
	st->executed = 1;
	st->has_status = 1;
	img = make_nonbits_image (op->kind, a, n);
	st->ret = img != NULL;
	if (!img) return;
	install_new_image (m, slot, op->kind, img, op);
	st->created_slot = slot;
	return;
    }
    case MOP_ALIAS:
    {
	/* slot := image of format A(2) over the very pixels of bits image A(1) (same bpp only) */
	int other = (int)sim_mod (A (1), M_NIMG), fi = (int)sim_mod (A (2), sim_n_formats);
	mslot_t *o = &m->img[other];
	pixman_image_t *img;
	if (s->used || !img_ok (m, other) || o->kind != MOP_BITS || other == slot || !o->lowest || o->yuv) return;
	if (PIXMAN_FORMAT_BPP (sim_formats[fi]) != PIXMAN_FORMAT_BPP (o->fmt) || fmt_is_indexed (sim_formats[fi])) return;
	st->executed = 1; st->has_status = 1;
	img = pixman_image_create_bits_no_clear (sim_formats[fi], o->w, o->h, pixman_image_get_data (o->img), o->stride);
	st->ret = img != NULL;
	if (!img) return;
	install_new_image (m, slot, MOP_BITS, img, op);
	s->fmt = sim_formats[fi]; s->fmt_idx = fi; s->w = o->w; s->h = o->h; s->stride = o->stride;
	s->lowest = o->lowest; s->storage = o->storage; s->tile = o->tile;
	s->lib_owned = 1;               /* not ours to describe again: replicas take the geometry from the slot */
	st->created_slot = slot;
	return;
    }
    case MOP_REF:
	if (!img_ok (m, slot)) return;
	st->executed = 1;
	pixman_image_ref (s->img);
	s->refs++;
	return;
    case MOP_UNREF:
    {
	if (!img_ok (m, slot)) return;
	st->executed = 1;
	st->has_status = 1;
	st->model_valid = 1;
	s->refs--;
	st->model_ret = s->refs == 0 && s->is_alpha_of == 0;
	if (st->model_ret) model_release (m, slot);
	st->ret = pixman_image_unref (s->img) ? 1 : 0;
	return;
    }
    case MOP_SET_DESTROY:
    {
	int cb = (int)sim_mod (A (1), 3);
	if (!img_ok (m, slot)) return;
	st->executed = 1;
	pixman_image_set_destroy_function (s->img, cb ? destroy_cb : NULL, cb ? (void *)s : NULL);
	s->cb_id = cb;
	return;
    }
    case MOP_SET_ALPHA_MAP:
    {
	int map = A (1) < 0 ? -1 : (int)sim_mod (A (1), M_NIMG);
	pixman_image_t *mi = NULL;
	int refused = 0;
	if (!img_ok (m, slot)) return;
	if (map >= 0)
	{
	    /* the user may name a map it no longer holds a reference to as long as this
	     * very image keeps it alive (re-attaching the current map, e.g. to move its origin) */
	    if (!(img_ok (m, map) || (m->img[map].used && m->img[map].img && s->has_alpha == map)) || m->img[map].kind != MOP_BITS) return;
	    mi = m->img[map].img;
	    /* the API's two refusal rules, on the model's CURRENT state */
	    if (s->is_alpha_of > 0) refused = 1;
	    if (m->img[map].has_alpha >= 0) refused = 1;
	    /* an image that is its own alpha map both has a map and is one: the
	     * shortest possible chain, so it must be refused like any other */
	    if (map == slot) refused = 1;
	}
	st->executed = 1;
	apply_prop (s->img, s->fmt, s->kind == MOP_BITS, op->kind, a, n, mi);
	if (!refused)
	{
	    int old = s->has_alpha;
	    if (old != map)
	    {
		if (map >= 0) m->img[map].is_alpha_of++;
		s->has_alpha = map;
		if (old >= 0)
		{
		    m->img[old].is_alpha_of--;
		    if (m->img[old].refs == 0 && m->img[old].is_alpha_of == 0) model_release (m, old);
		}
	    }
	    s->prop[P_ALPHA_MAP] = *op;
	    s->prop_set[P_ALPHA_MAP] = 1;
	}
	return;
    }
    default:
    {
	int pk = prop_kind_of (op->kind), ok;
	if (pk < 0 || !img_ok (m, slot)) return;
	if (op->kind == MOP_SET_ACCESSORS && (s->kind != MOP_BITS || PIXMAN_FORMAT_BPP (s->fmt) > 32)) return;
	if (op->kind == MOP_SET_INDEXED && (s->kind != MOP_BITS || !fmt_is_indexed (s->fmt))) return;
	st->executed = 1;
	st->has_status = op->kind == MOP_SET_TRANSFORM || op->kind == MOP_SET_FILTER || op->kind == MOP_SET_CLIP32 || op->kind == MOP_SET_CLIP16;
	ok = apply_prop (s->img, s->fmt, s->kind == MOP_BITS, op->kind, a, n, NULL);
	st->ret = ok;
	if (ok)
	{
	    s->prop[pk] = *op;
	    s->prop_set[pk] = 1;
	    if (op->kind == MOP_SET_ACCESSORS) { int md = (int)sim_mod (A (1), 4); s->accessors = md == 3 ? 1 : md; }
	}
	return;
    }
    }
}

/* ------------------------------------------------------------ step: drawing */

static void
set_active (machine_t *m, int s0, int s1, int s2)
{
    int v[3] = { s0, s1, s2 }, i;
    m->n_active = 0;
    for (i = 0; i < 3; i++)
    {
	if (v[i] < 0) continue;
	m->active[m->n_active++] = v[i];
	if (m->img[v[i]].has_alpha >= 0) m->active[m->n_active++] = m->img[v[i]].has_alpha;
    }
}

/* an image whose write accessor is NULL while the read accessor is set can
 * only be read: drawing to it would call a NULL pointer (caller error) */
static int
read_only (machine_t *m, int slot)
{
    if (slot < 0) return 0;
    if (m->img[slot].accessors == 2 || m->img[slot].yuv) return 1;
    if (m->img[slot].has_alpha >= 0 && (m->img[m->img[slot].has_alpha].accessors == 2 || m->img[m->img[slot].has_alpha].yuv)) return 1;
    return 0;
}

static void
mark_draw (machine_t *m, mstep_t *st, int dst)
{
    st->is_draw = 1;
    st->dst_slot = dst;
    st->dst2_slot = m->img[dst].has_alpha;
}

static pixman_color_t
decode_color (const int64_t *a, int n, int at)
{
    pixman_color_t c;
    c.alpha = (uint16_t)sim_mod (A (at), 65536); c.red = (uint16_t)sim_mod (A (at + 1), 65536);
    c.green = (uint16_t)sim_mod (A (at + 2), 65536); c.blue = (uint16_t)sim_mod (A (at + 3), 65536);
    return c;
}

static void
decode_trapezoid (const int64_t *a, int n, int at, pixman_trapezoid_t *t)
{
    t->top = FIX (A (at)); t->bottom = FIX (A (at + 1));
    t->left.p1.x = FIX (A (at + 2)); t->left.p1.y = FIX (A (at + 3));
    t->left.p2.x = FIX (A (at + 4)); t->left.p2.y = FIX (A (at + 5));
    t->right.p1.x = FIX (A (at + 6)); t->right.p1.y = FIX (A (at + 7));
    t->right.p2.x = FIX (A (at + 8)); t->right.p2.y = FIX (A (at + 9));
}

/* the raw rasterisation entry points are defined for alpha-only images */
static int
alpha_only (pixman_format_code_t f)
{
    return PIXMAN_FORMAT_TYPE (f) == PIXMAN_TYPE_A && PIXMAN_FORMAT_BPP (f) <= 8;
}

/* a request whose destination storage is also read as source or mask has
 * no defined result (the fast paths memcpy): a caller error, kept out */
static int
shares_storage (machine_t *m, int a, int b)
{
    int aa, ba;
    if (a < 0 || b < 0) return 0;
    aa = m->img[a].has_alpha; ba = m->img[b].has_alpha;
    if (m->img[a].lowest && m->img[a].lowest == m->img[b].lowest) return 1;     /* alias images */
    return a == b || aa == b || ba == a || (aa >= 0 && aa == ba);
}

static const pixman_format_code_t mask_formats[3] = { PIXMAN_a8, PIXMAN_a1, PIXMAN_a4 };
/* mask formats of pixman_composite_glyphs: index 0..3 as ever, then formats with other channel orders and widths */
static const pixman_format_code_t glyph_mask_formats[10] = { PIXMAN_a8, PIXMAN_a1, PIXMAN_a4, PIXMAN_a8r8g8b8,
							     PIXMAN_a8b8g8r8, PIXMAN_b8g8r8a8, PIXMAN_r8g8b8a8, PIXMAN_x8r8g8b8, PIXMAN_a4r4g4b4, PIXMAN_a1b5g5r5 };

static void
step_draw_op (machine_t *m, const sim_op_t *op, const int64_t *a, int n, mstep_t *st)
{
    switch (op->kind)
    {
    case MOP_COMPOSITE:
    {
	int src = (int)sim_mod (A (1), M_NIMG), mask = A (2) < 0 ? -1 : (int)sim_mod (A (2), M_NIMG), dst = (int)sim_mod (A (3), M_NIMG);
	if (!img_ok (m, src) || !img_ok (m, dst) || (mask >= 0 && !img_ok (m, mask))) return;
	if ((m->img[dst].kind != MOP_BITS || read_only (m, dst))) return;
	if (shares_storage (m, src, dst) || shares_storage (m, mask, dst)) return;
	st->executed = 1;
	mark_draw (m, st, dst);
	set_active (m, src, mask, dst);
	pixman_image_composite32 (sim_ops[sim_mod (A (0), sim_n_ops)], m->img[src].img, mask >= 0 ? m->img[mask].img : NULL, m->img[dst].img,
				  (int32_t)sim_clamp (A (4), -100000, 100000), (int32_t)sim_clamp (A (5), -100000, 100000),
				  (int32_t)sim_clamp (A (6), -100000, 100000), (int32_t)sim_clamp (A (7), -100000, 100000),
				  (int32_t)sim_clamp (A (8), -100000, 100000), (int32_t)sim_clamp (A (9), -100000, 100000),
				  (int32_t)sim_clamp (A (10), 0, 100000), (int32_t)sim_clamp (A (11), 0, 100000));
	return;
    }
    case MOP_FILL_BOXES:
    {
	int dst = (int)sim_mod (A (1), M_NIMG), cnt = (int)sim_clamp (A (6), 0, 20), i;
	pixman_color_t c = decode_color (a, n, 2);
	pixman_box32_t b[20];
	if (!img_ok (m, dst) || (m->img[dst].kind != MOP_BITS || read_only (m, dst))) return;
	for (i = 0; i < cnt; i++)
	{
	    b[i].x1 = (int32_t)sim_clamp (A (7 + 4 * i), -40000, 40000); b[i].y1 = (int32_t)sim_clamp (A (8 + 4 * i), -40000, 40000);
	    b[i].x2 = (int32_t)sim_clamp (A (9 + 4 * i), -40000, 40000); b[i].y2 = (int32_t)sim_clamp (A (10 + 4 * i), -40000, 40000);
	    if (b[i].x2 < b[i].x1) b[i].x2 = b[i].x1;
	    if (b[i].y2 < b[i].y1) b[i].y2 = b[i].y1;
	}
	st->executed = 1; st->has_status = 1;
	mark_draw (m, st, dst);
	set_active (m, dst, -1, -1);
	st->ret = pixman_image_fill_boxes (sim_ops[sim_mod (A (0), sim_n_ops)], m->img[dst].img, &c, cnt, b);
	return;
    }
    case MOP_FILL_RECTS:
    {
	int dst = (int)sim_mod (A (1), M_NIMG), cnt = (int)sim_clamp (A (6), 0, 20), i;
	pixman_color_t c = decode_color (a, n, 2);
	pixman_rectangle16_t r[20];
	if (!img_ok (m, dst) || (m->img[dst].kind != MOP_BITS || read_only (m, dst))) return;
	for (i = 0; i < cnt; i++)
	{
	    r[i].x = (int16_t)sim_clamp (A (7 + 4 * i), -32768, 32767); r[i].y = (int16_t)sim_clamp (A (8 + 4 * i), -32768, 32767);
	    r[i].width = (uint16_t)sim_clamp (A (9 + 4 * i), 0, 65535); r[i].height = (uint16_t)sim_clamp (A (10 + 4 * i), 0, 65535);
	}
	st->executed = 1; st->has_status = 1;
	mark_draw (m, st, dst);
	set_active (m, dst, -1, -1);
	st->ret = pixman_image_fill_rectangles (sim_ops[sim_mod (A (0), sim_n_ops)], m->img[dst].img, &c, cnt, r);
	return;
    }
    case MOP_FILL:
    {
	int dst = (int)sim_mod (A (0), M_NIMG);
	mslot_t *s = &m->img[dst];
	int x, y, w, h, bpp;
	uint32_t *bits;
	if (!img_ok (m, dst) || s->kind != MOP_BITS || s->yuv) return;
	bpp = PIXMAN_FORMAT_BPP (s->fmt);
	/* the caller addresses a rectangle inside the buffer it described */
	x = (int)sim_clamp (A (1), 0, s->w); y = (int)sim_clamp (A (2), 0, s->h);
	w = (int)sim_clamp (A (3), 0, s->w - x); h = (int)sim_clamp (A (4), 0, s->h - y);
	bits = pixman_image_get_data (s->img);
	st->executed = 1; st->has_status = 1;
	mark_draw (m, st, dst);
	set_active (m, dst, -1, -1);
	st->ret = pixman_fill (bits, s->stride / 4, bpp, x, y, w, h, (uint32_t)A (5));
	return;
    }
    case MOP_BLT:
    {
	int src = (int)sim_mod (A (0), M_NIMG), dst = (int)sim_mod (A (1), M_NIMG);
	mslot_t *s = &m->img[src], *d = &m->img[dst];
	int sx, sy, dx, dy, w, h;
	if (!img_ok (m, src) || !img_ok (m, dst) || s->kind != MOP_BITS || d->kind != MOP_BITS || src == dst || s->yuv || d->yuv) return;
	sx = (int)sim_clamp (A (2), 0, s->w); sy = (int)sim_clamp (A (3), 0, s->h);
	dx = (int)sim_clamp (A (4), 0, d->w); dy = (int)sim_clamp (A (5), 0, d->h);
	w = (int)sim_clamp (A (6), 0, s->w - sx); if (w > d->w - dx) w = d->w - dx;
	h = (int)sim_clamp (A (7), 0, s->h - sy); if (h > d->h - dy) h = d->h - dy;
	st->executed = 1; st->has_status = 1;
	mark_draw (m, st, dst);
	set_active (m, src, dst, -1);
	st->ret = pixman_blt (pixman_image_get_data (s->img), pixman_image_get_data (d->img), s->stride / 4, d->stride / 4,
			      PIXMAN_FORMAT_BPP (s->fmt), PIXMAN_FORMAT_BPP (d->fmt), sx, sy, dx, dy, w, h);
	return;
    }
    case MOP_ADD_TRAPS:
    {
	int dst = (int)sim_mod (A (0), M_NIMG), cnt = (int)sim_clamp (A (3), 0, 8), i;
	pixman_trap_t t[8];
	if (!img_ok (m, dst) || (m->img[dst].kind != MOP_BITS || read_only (m, dst)) || !alpha_only (m->img[dst].fmt)) return;
	for (i = 0; i < cnt; i++)
	{
	    int b = 4 + 6 * i;
	    t[i].top.l = FIX (A (b)); t[i].top.r = FIX (A (b + 1)); t[i].top.y = FIX (A (b + 2));
	    t[i].bot.l = FIX (A (b + 3)); t[i].bot.r = FIX (A (b + 4)); t[i].bot.y = FIX (A (b + 5));
	}
	st->executed = 1;
	mark_draw (m, st, dst);
	set_active (m, dst, -1, -1);
	pixman_add_traps (m->img[dst].img, (int16_t)sim_clamp (A (1), -2000, 2000), (int16_t)sim_clamp (A (2), -2000, 2000), cnt, t);
	return;
    }
    case MOP_ADD_TRAPEZOIDS:
    case MOP_RASTERIZE_TRAP:
    {
	int dst = (int)sim_mod (A (0), M_NIMG), cnt = op->kind == MOP_RASTERIZE_TRAP ? 1 : (int)sim_clamp (A (3), 0, 6), i;
	pixman_trapezoid_t t[6];
	if (!img_ok (m, dst) || (m->img[dst].kind != MOP_BITS || read_only (m, dst)) || !alpha_only (m->img[dst].fmt)) return;
	for (i = 0; i < cnt; i++) decode_trapezoid (a, n, (op->kind == MOP_RASTERIZE_TRAP ? 3 : 4) + 10 * i, &t[i]);
	st->executed = 1;
	mark_draw (m, st, dst);
	set_active (m, dst, -1, -1);
	if (op->kind == MOP_RASTERIZE_TRAP)
	    pixman_rasterize_trapezoid (m->img[dst].img, &t[0], (int)sim_clamp (A (1), -2000, 2000), (int)sim_clamp (A (2), -2000, 2000));
	else
	    pixman_add_trapezoids (m->img[dst].img, (int16_t)sim_clamp (A (1), -2000, 2000), (int)sim_clamp (A (2), -2000, 2000), cnt, t);
	return;
    }
    case MOP_COMPOSITE_TRAPS:
    case MOP_COMPOSITE_TRIS:
    {
	int src = (int)sim_mod (A (1), M_NIMG), dst = (int)sim_mod (A (2), M_NIMG), cnt = (int)sim_clamp (A (8), 0, 6), i;
	pixman_format_code_t mf = mask_formats[sim_mod (A (3), 3)];
	if (!img_ok (m, src) || !img_ok (m, dst) || (m->img[dst].kind != MOP_BITS || read_only (m, dst)) || shares_storage (m, src, dst)) return;
	st->executed = 1;
	mark_draw (m, st, dst);
	set_active (m, src, dst, -1);
	if (op->kind == MOP_COMPOSITE_TRAPS)
	{
	    pixman_trapezoid_t t[6];
	    for (i = 0; i < cnt; i++) decode_trapezoid (a, n, 9 + 10 * i, &t[i]);
	    pixman_composite_trapezoids (sim_ops[sim_mod (A (0), sim_n_ops)], m->img[src].img, m->img[dst].img, mf,
					 (int)sim_clamp (A (4), -2000, 2000), (int)sim_clamp (A (5), -2000, 2000),
					 (int)sim_clamp (A (6), -2000, 2000), (int)sim_clamp (A (7), -2000, 2000), cnt, t);
	}
	else
	{
	    pixman_triangle_t t[6];
	    for (i = 0; i < cnt; i++)
	    {
		int b = 9 + 6 * i;
		t[i].p1.x = FIX (A (b)); t[i].p1.y = FIX (A (b + 1)); t[i].p2.x = FIX (A (b + 2));
		t[i].p2.y = FIX (A (b + 3)); t[i].p3.x = FIX (A (b + 4)); t[i].p3.y = FIX (A (b + 5));
	    }
	    pixman_composite_triangles (sim_ops[sim_mod (A (0), sim_n_ops)], m->img[src].img, m->img[dst].img, mf,
					(int)sim_clamp (A (4), -2000, 2000), (int)sim_clamp (A (5), -2000, 2000),
					(int)sim_clamp (A (6), -2000, 2000), (int)sim_clamp (A (7), -2000, 2000), cnt, t);
	}
	return;
    }
    case MOP_ADD_TRIS:
    {
	int dst = (int)sim_mod (A (0), M_NIMG), cnt = (int)sim_clamp (A (3), 0, 6), i;
	pixman_triangle_t t[6];
	if (!img_ok (m, dst) || (m->img[dst].kind != MOP_BITS || read_only (m, dst)) || !alpha_only (m->img[dst].fmt)) return;
	for (i = 0; i < cnt; i++)
	{
	    int b = 4 + 6 * i;
	    t[i].p1.x = FIX (A (b)); t[i].p1.y = FIX (A (b + 1)); t[i].p2.x = FIX (A (b + 2));
	    t[i].p2.y = FIX (A (b + 3)); t[i].p3.x = FIX (A (b + 4)); t[i].p3.y = FIX (A (b + 5));
	}
	st->executed = 1;
	mark_draw (m, st, dst);
	set_active (m, dst, -1, -1);
	pixman_add_triangles (m->img[dst].img, (int32_t)sim_clamp (A (1), -2000, 2000), (int32_t)sim_clamp (A (2), -2000, 2000), cnt, t);
	return;
    }
    case MOP_SCRIBBLE:
    {
	int slot = (int)sim_mod (A (0), M_NIMG);
	mslot_t *s = &m->img[slot];
	if (!img_ok (m, slot) || s->kind != MOP_BITS || !s->lowest) return;
	st->executed = 1;
	if (sim_mod (A (2), 2) == 1 && PIXMAN_FORMAT_BPP (s->fmt) <= 32 && PIXMAN_FORMAT_BPP (s->fmt) >= 8)
	    fill_runs (s->lowest, s->storage, (uint64_t)A (1), s->fmt);
	else
	    fill_bytes (s->lowest, s->storage, (uint64_t)A (1), s->fmt);
	return;
    }
    }
}

/* ------------------------------------------------------------ step: glyph cache */

static void
step_glyph_op (machine_t *m, const sim_op_t *op, const int64_t *a, int n, mstep_t *st)
{
    int c = (int)sim_mod (A (op->kind == MOP_GLYPHS ? 13 : 0), M_NGC);
    switch (op->kind)
    {
    case MOP_GC_CREATE:
	if (m->gc[c]) return;
	st->executed = 1; st->has_status = 1;
	m->gc[c] = pixman_glyph_cache_create ();
	m->gc_freeze[c] = 0;
	st->ret = m->gc[c] != NULL;
	return;
    case MOP_GC_DESTROY:
	if (!m->gc[c]) return;
	st->executed = 1;
	while (m->gc_freeze[c] > 0) { pixman_glyph_cache_thaw (m->gc[c]); m->gc_freeze[c]--; }
	pixman_glyph_cache_destroy (m->gc[c]);
	m->gc[c] = NULL;
	return;
    case MOP_GC_FREEZE:
	if (!m->gc[c] || m->gc_freeze[c] >= 4) return;
	st->executed = 1;
	pixman_glyph_cache_freeze (m->gc[c]);
	m->gc_freeze[c]++;
	return;
    case MOP_GC_THAW:
	if (!m->gc[c] || m->gc_freeze[c] <= 0) return;
	st->executed = 1;
	pixman_glyph_cache_thaw (m->gc[c]);
	m->gc_freeze[c]--;
	return;
    case MOP_GC_INSERT:
    {
	int slot = (int)sim_mod (A (5), M_NIMG);
	void *fk = (void *)(uintptr_t)(1 + sim_mod (A (1), 64)), *gk = (void *)(uintptr_t)(1 + sim_mod (A (2), 64));
	int frozen_here = 0;
	if (!m->gc[c] || !img_ok (m, slot) || m->img[slot].kind != MOP_BITS) return;
	if (PIXMAN_FORMAT_BPP (m->img[slot].fmt) > 32 || fmt_is_indexed (m->img[slot].fmt) || m->img[slot].yuv) return;
	st->executed = 1; st->has_status = 1;
	set_active (m, slot, -1, -1);
	if (m->gc_freeze[c] == 0) { pixman_glyph_cache_freeze (m->gc[c]); frozen_here = 1; }
	if (pixman_glyph_cache_lookup (m->gc[c], fk, gk))
	    st->ret = 1;                        /* present already: the API forbids a second insert */
	else
	    st->ret = pixman_glyph_cache_insert (m->gc[c], fk, gk, (int)sim_clamp (A (3), -20, 20), (int)sim_clamp (A (4), -20, 20),
						 m->img[slot].img) != NULL;
	if (frozen_here) pixman_glyph_cache_thaw (m->gc[c]);
	return;
    }
    case MOP_GC_REMOVE:
    {
	void *fk = (void *)(uintptr_t)(1 + sim_mod (A (1), 64)), *gk = (void *)(uintptr_t)(1 + sim_mod (A (2), 64));
	if (!m->gc[c]) return;
	st->executed = 1;
	pixman_glyph_cache_remove (m->gc[c], fk, gk);
	return;
    }
    case MOP_GLYPHS:
    {
	/* op src dst usemask maskfmt sx sy mx my dx dy w h cache n (x y font glyph)* */
	int src = (int)sim_mod (A (1), M_NIMG), dst = (int)sim_mod (A (2), M_NIMG), cnt = (int)sim_clamp (A (14), 0, 12), i, ng = 0;
	pixman_glyph_t g[12];
	int frozen_here = 0;
	if (!m->gc[c] || !img_ok (m, src) || !img_ok (m, dst) || (m->img[dst].kind != MOP_BITS || read_only (m, dst)) || shares_storage (m, src, dst)) return;
	st->executed = 1;
	mark_draw (m, st, dst);
	set_active (m, src, dst, -1);
	if (m->gc_freeze[c] == 0) { pixman_glyph_cache_freeze (m->gc[c]); frozen_here = 1; }
	for (i = 0; i < cnt; i++)
	{
	    int b = 15 + 4 * i;
	    const void *gl = pixman_glyph_cache_lookup (m->gc[c], (void *)(uintptr_t)(1 + sim_mod (A (b + 2), 64)),
							 (void *)(uintptr_t)(1 + sim_mod (A (b + 3), 64)));
	    if (!gl) continue;
	    g[ng].x = (int)sim_clamp (A (b), -3000, 3000); g[ng].y = (int)sim_clamp (A (b + 1), -3000, 3000);
	    g[ng].glyph = gl;
	    ng++;
	}
	if (sim_mod (A (3), 2))
	    pixman_composite_glyphs (sim_ops[sim_mod (A (0), sim_n_ops)], m->img[src].img, m->img[dst].img,
				     glyph_mask_formats[sim_mod (A (4), 10)],
				     (int32_t)sim_clamp (A (5), -3000, 3000), (int32_t)sim_clamp (A (6), -3000, 3000),
				     (int32_t)sim_clamp (A (7), -3000, 3000), (int32_t)sim_clamp (A (8), -3000, 3000),
				     (int32_t)sim_clamp (A (9), -3000, 3000), (int32_t)sim_clamp (A (10), -3000, 3000),
				     (int32_t)sim_clamp (A (11), 0, 3000), (int32_t)sim_clamp (A (12), 0, 3000), m->gc[c], ng, g);
	else
	    pixman_composite_glyphs_no_mask (sim_ops[sim_mod (A (0), sim_n_ops)], m->img[src].img, m->img[dst].img,
					     (int32_t)sim_clamp (A (5), -3000, 3000), (int32_t)sim_clamp (A (6), -3000, 3000),
					     (int32_t)sim_clamp (A (9), -3000, 3000), (int32_t)sim_clamp (A (10), -3000, 3000), m->gc[c], ng, g);
	if (frozen_here) pixman_glyph_cache_thaw (m->gc[c]);
	return;
    }
    }
}

/* ------------------------------------------------------------ step: regions */

static void
step_region_op (machine_t *m, const sim_op_t *op, const int64_t *a, int n, mstep_t *st)
{
    int w16 = (int)sim_mod (A (0), 2);
    int i;
    /* regions are lazily initialised so that every slot is always a valid operand */
    for (i = 0; i < M_NREG; i++)
    {
	if (!m->r32_init[i]) { pixman_region32_init (&m->r32[i]); m->r32_init[i] = 1; }
	if (!m->r16_init[i]) { pixman_region_init (&m->r16[i]); m->r16_init[i] = 1; }
    }
    st->executed = 1;
    st->has_status = 1;
    st->region_written = w16 ? 16 : 32;
    switch (op->kind)
    {
    case MOP_R_INIT_RECTS:
    {
	int dst = (int)sim_mod (A (1), M_NREG), cnt = (int)sim_clamp (A (2), 0, 20);
	st->region_slot = dst;
	if (A (2) == 100000)
	{
	    /* a count no allocation can serve: the documented way to the broken region without any fault injection */
	    pixman_box32_t b32 = { 0, 0, 1, 1 };
	    pixman_box16_t b16 = { 0, 0, 1, 1 };
	    if (w16) { pixman_region_fini (&m->r16[dst]); st->ret = pixman_region_init_rects (&m->r16[dst], &b16, 0x20000000); }
	    else { pixman_region32_fini (&m->r32[dst]); st->ret = pixman_region32_init_rects (&m->r32[dst], &b32, 0x20000000); }
	    return;
	}
	if (A (2) > 20)
	{
	    /* many boxes from a formula (the arguments would not fit): count = A(2) up to 400,
	     * pattern A(3): 0 nested boxes (none can be appended to another), 1 a staircase,
	     * 2 pseudo-random from A(4) */
	    pixman_box32_t b32[400];
	    pixman_box16_t b16[400];
	    int big = (int)sim_clamp (A (2), 21, 400), pat = (int)sim_mod (A (3), 3);
	    uint64_t x = (uint64_t)A (4) * 0x9e3779b97f4a7c15ull + 5;
	    for (i = 0; i < big; i++)
	    {
		int x1, y1, x2, y2;
		if (pat == 0) { x1 = i; y1 = i; x2 = 1000 - i; y2 = 1000 - i; }
		else if (pat == 1) { x1 = 3 * i; y1 = 2 * i; x2 = x1 + 40; y2 = y1 + 7; }
		else { uint64_t q = sim_splitmix (&x); x1 = (int)(q & 1023); y1 = (int)(q >> 10 & 1023); x2 = x1 + 1 + (int)(q >> 20 & 63); y2 = y1 + 1 + (int)(q >> 26 & 63); }
		b32[i].x1 = x1; b32[i].y1 = y1; b32[i].x2 = x2; b32[i].y2 = y2;
		b16[i].x1 = (int16_t)x1; b16[i].y1 = (int16_t)y1; b16[i].x2 = (int16_t)x2; b16[i].y2 = (int16_t)y2;
	    }
	    if (w16) { pixman_region_fini (&m->r16[dst]); st->ret = pixman_region_init_rects (&m->r16[dst], b16, big); }
	    else { pixman_region32_fini (&m->r32[dst]); st->ret = pixman_region32_init_rects (&m->r32[dst], b32, big); }
	    return;
	}
	if (w16)
	{
	    pixman_box16_t b[20];
	    for (i = 0; i < cnt; i++)
	    {
		b[i].x1 = (int16_t)sim_clamp (A (3 + 4 * i), -32768, 32767); b[i].y1 = (int16_t)sim_clamp (A (4 + 4 * i), -32768, 32767);
		b[i].x2 = (int16_t)sim_clamp (A (5 + 4 * i), -32768, 32767); b[i].y2 = (int16_t)sim_clamp (A (6 + 4 * i), -32768, 32767);
	    }
	    pixman_region_fini (&m->r16[dst]);
	    st->ret = pixman_region_init_rects (&m->r16[dst], b, cnt);
	}
	else
	{
	    pixman_box32_t b[20];
	    for (i = 0; i < cnt; i++)
	    {
		b[i].x1 = (int32_t)sim_clamp (A (3 + 4 * i), INT32_MIN, INT32_MAX); b[i].y1 = (int32_t)sim_clamp (A (4 + 4 * i), INT32_MIN, INT32_MAX);
		b[i].x2 = (int32_t)sim_clamp (A (5 + 4 * i), INT32_MIN, INT32_MAX); b[i].y2 = (int32_t)sim_clamp (A (6 + 4 * i), INT32_MIN, INT32_MAX);
	    }
	    pixman_region32_fini (&m->r32[dst]);
	    st->ret = pixman_region32_init_rects (&m->r32[dst], b, cnt);
	}
	return;
    }
    case MOP_R_BINOP:
    {
	int k = (int)sim_mod (A (1), 3), dst = (int)sim_mod (A (2), M_NREG), x = (int)sim_mod (A (3), M_NREG), y = (int)sim_mod (A (4), M_NREG);
	st->region_slot = dst;
	if (w16) st->ret = k == 0 ? pixman_region_union (&m->r16[dst], &m->r16[x], &m->r16[y]) :
			   k == 1 ? pixman_region_intersect (&m->r16[dst], &m->r16[x], &m->r16[y]) :
				    pixman_region_subtract (&m->r16[dst], &m->r16[x], &m->r16[y]);
	else st->ret = k == 0 ? pixman_region32_union (&m->r32[dst], &m->r32[x], &m->r32[y]) :
		       k == 1 ? pixman_region32_intersect (&m->r32[dst], &m->r32[x], &m->r32[y]) :
				pixman_region32_subtract (&m->r32[dst], &m->r32[x], &m->r32[y]);
	return;
    }
    case MOP_R_RECTOP:
    {
	int k = (int)sim_mod (A (1), 2), dst = (int)sim_mod (A (2), M_NREG), src = (int)sim_mod (A (3), M_NREG);
	int x = (int)sim_clamp (A (4), -30000, 30000), y = (int)sim_clamp (A (5), -30000, 30000);
	unsigned ww = (unsigned)sim_clamp (A (6), 0, 2000), hh = (unsigned)sim_clamp (A (7), 0, 2000);
	st->region_slot = dst;
	if (w16) st->ret = k ? pixman_region_intersect_rect (&m->r16[dst], &m->r16[src], x, y, ww, hh)
			     : pixman_region_union_rect (&m->r16[dst], &m->r16[src], x, y, ww, hh);
	else st->ret = k ? pixman_region32_intersect_rect (&m->r32[dst], &m->r32[src], x, y, ww, hh)
			 : pixman_region32_union_rect (&m->r32[dst], &m->r32[src], x, y, ww, hh);
	return;
    }
    case MOP_R_COPY:
    {
	int dst = (int)sim_mod (A (1), M_NREG), src = (int)sim_mod (A (2), M_NREG);
	st->region_slot = dst;
	st->ret = w16 ? pixman_region_copy (&m->r16[dst], &m->r16[src]) : pixman_region32_copy (&m->r32[dst], &m->r32[src]);
	return;
    }
    case MOP_R_INVERSE:
    {
	int dst = (int)sim_mod (A (1), M_NREG), src = (int)sim_mod (A (2), M_NREG);
	int64_t x1 = sim_clamp (A (3), -30000, 30000), y1 = sim_clamp (A (4), -30000, 30000);
	int64_t x2 = x1 + sim_clamp (A (5), 1, 2000), y2 = y1 + sim_clamp (A (6), 1, 2000);
	st->region_slot = dst;
	if (w16) { pixman_box16_t b = { (int16_t)x1, (int16_t)y1, (int16_t)x2, (int16_t)y2 }; st->ret = pixman_region_inverse (&m->r16[dst], &m->r16[src], &b); }
	else { pixman_box32_t b = { (int32_t)x1, (int32_t)y1, (int32_t)x2, (int32_t)y2 }; st->ret = pixman_region32_inverse (&m->r32[dst], &m->r32[src], &b); }
	return;
    }
    case MOP_R_CONV:
    {
	int dst = (int)sim_mod (A (1), M_NREG), src = (int)sim_mod (A (2), M_NREG);
	st->region_slot = dst;
	/* w16 names the width of the destination */
	if (w16) st->ret = pixman_region16_copy_from_region32 (&m->r16[dst], &m->r32[src]);
	else st->ret = pixman_region32_copy_from_region16 (&m->r32[dst], &m->r16[src]);
	return;
    }
    case MOP_R_SHARED_BINOP:
    {
	/* k, private destination, shared operand, other operand (0-3 shared, 4-7 private), shared operand first or second */
	int k = (int)sim_mod (A (1), 3), dst = (int)sim_mod (A (2), M_NREG), sh = (int)sim_mod (A (3), M_NREG), oth = (int)sim_mod (A (4), 2 * M_NREG);
	int second = (int)sim_mod (A (5), 2);
	machine_t *o = m->shared_regions;
	if (!o) { st->executed = 0; st->has_status = 0; st->region_written = 0; return; }
	st->region_slot = dst;
	if (w16)
	{
	    pixman_region16_t *x = &o->r16[sh], *y = oth < M_NREG ? &o->r16[oth] : &m->r16[oth - M_NREG], *t;
	    if (!o->r16_init[sh] || (oth < M_NREG && !o->r16_init[oth])) { st->executed = 0; st->has_status = 0; st->region_written = 0; return; }
	    if (second) { t = x; x = y; y = t; }
	    st->ret = k == 0 ? pixman_region_union (&m->r16[dst], x, y) : k == 1 ? pixman_region_intersect (&m->r16[dst], x, y) : pixman_region_subtract (&m->r16[dst], x, y);
	}
	else
	{
	    pixman_region32_t *x = &o->r32[sh], *y = oth < M_NREG ? &o->r32[oth] : &m->r32[oth - M_NREG], *t;
	    if (!o->r32_init[sh] || (oth < M_NREG && !o->r32_init[oth])) { st->executed = 0; st->has_status = 0; st->region_written = 0; return; }
	    if (second) { t = x; x = y; y = t; }
	    st->ret = k == 0 ? pixman_region32_union (&m->r32[dst], x, y) : k == 1 ? pixman_region32_intersect (&m->r32[dst], x, y) : pixman_region32_subtract (&m->r32[dst], x, y);
	}
	return;
    }
    case MOP_R_FROM_IMAGE:
    {
	/* void: its way of reporting failure is to leave the broken region */
	int dst = (int)sim_mod (A (1), M_NREG), slot = (int)sim_mod (A (2), M_NIMG);
	mslot_t *s = &m->img[slot];
	if (!img_ok (m, slot) || s->kind != MOP_BITS || s->fmt != PIXMAN_a1 || s->yuv) { st->executed = 0; st->has_status = 0; st->region_written = 0; return; }
	st->region_slot = dst;
	set_active (m, slot, -1, -1);
	if (w16)
	{
	    pixman_region_fini (&m->r16[dst]);
	    pixman_region_init_from_image (&m->r16[dst], s->img);
	    st->ret = !(pixman_region_n_rects (&m->r16[dst]) == 0 && !pixman_region_not_empty (&m->r16[dst]) && !pixman_region_selfcheck (&m->r16[dst]));
	}
	else
	{
	    pixman_region32_fini (&m->r32[dst]);
	    pixman_region32_init_from_image (&m->r32[dst], s->img);
	    st->ret = !(pixman_region32_n_rects (&m->r32[dst]) == 0 && !pixman_region32_not_empty (&m->r32[dst]) && !pixman_region32_selfcheck (&m->r32[dst]));
	}
	return;
    }
    case MOP_R_FINI:
    {
	int dst = (int)sim_mod (A (1), M_NREG);
	st->region_slot = dst;
	st->has_status = 0;
	if (w16) { pixman_region_fini (&m->r16[dst]); pixman_region_init (&m->r16[dst]); }
	else { pixman_region32_fini (&m->r32[dst]); pixman_region32_init (&m->r32[dst]); }
	return;
    }
    }
}

/* ------------------------------------------------------------ step: misc */

static void
step_misc_op (machine_t *m, const sim_op_t *op, const int64_t *a, int n, mstep_t *st)
{
    switch (op->kind)
    {
    case MOP_FILTER_CREATE:
    {
	pixman_fixed_t *p;
	int nv = 0;
	int rx = (int)sim_mod (A (0), 8), ry = (int)sim_mod (A (1), 8), sx = (int)sim_mod (A (2), 8), sy = (int)sim_mod (A (3), 8);
	/* IMPULSE x IMPULSE on one axis gives a filter of width 0, for which
	 * create_1d_filter writes one element past its table (pixman-filter.c:307;
	 * C18's business, which is not decided here): keep it out */
	if (rx == PIXMAN_KERNEL_IMPULSE && sx == PIXMAN_KERNEL_IMPULSE) sx = PIXMAN_KERNEL_BOX;
	if (ry == PIXMAN_KERNEL_IMPULSE && sy == PIXMAN_KERNEL_IMPULSE) sy = PIXMAN_KERNEL_BOX;
	st->executed = 1; st->has_status = 1;
	p = pixman_filter_create_separable_convolution (&nv, (pixman_fixed_t)sim_clamp (A (4), 4096, 65536 * 6), (pixman_fixed_t)sim_clamp (A (5), 4096, 65536 * 6),
							(pixman_kernel_t)rx, (pixman_kernel_t)ry, (pixman_kernel_t)sx, (pixman_kernel_t)sy,
							(int)sim_clamp (A (6), 0, 3), (int)sim_clamp (A (7), 0, 3));
	st->ret = p != NULL;
	if (p) st->aux = fnv_bytes (fnv_u64 (FNV_INIT, (uint64_t)nv), p, (size_t)nv * sizeof (pixman_fixed_t));
	free (p);           /* the caller owns the table */
	return;
    }
    case MOP_COMPUTE_REGION:
    {
	int src = (int)sim_mod (A (0), M_NIMG), mask = A (1) < 0 ? -1 : (int)sim_mod (A (1), M_NIMG), dst = (int)sim_mod (A (2), M_NIMG);
	pixman_region16_t r;
	if (!img_ok (m, src) || !img_ok (m, dst) || (mask >= 0 && !img_ok (m, mask)) || (m->img[dst].kind != MOP_BITS || read_only (m, dst))) return;
	st->executed = 1; st->has_status = 1;
	pixman_region_init (&r);
	st->ret = pixman_compute_composite_region (&r, m->img[src].img, mask >= 0 ? m->img[mask].img : NULL, m->img[dst].img,
						   (int16_t)sim_clamp (A (3), -3000, 3000), (int16_t)sim_clamp (A (4), -3000, 3000),
						   (int16_t)sim_clamp (A (5), -3000, 3000), (int16_t)sim_clamp (A (6), -3000, 3000),
						   (int16_t)sim_clamp (A (7), -3000, 3000), (int16_t)sim_clamp (A (8), -3000, 3000),
						   (uint16_t)sim_clamp (A (9), 0, 3000), (uint16_t)sim_clamp (A (10), 0, 3000));
	pixman_region_fini (&r);
	return;
    }
    }
}

/* ------------------------------------------------------------ the step */

void
machine_step (machine_t *m, const sim_op_t *op, int op_index, mstep_t *st)
{
    const int64_t *a = op->a + M_PREFIX;
    int n = op->n - M_PREFIX;
    int fk = 0, fmode = 0, fentry = 0;
    machine_t *prev = machine_current;
    if (n < 0) n = 0;
    memset (st, 0, sizeof *st);
    st->dst_slot = st->dst2_slot = st->created_slot = -1;
    st->ret = 1;
    m->cur_op = op_index;
    m->n_active = 0;
    machine_current = m;
    if (m->chain >= 0) chain_install (m->chain);
    if (m->faults_enabled && op->n >= M_PREFIX)
    {
	fmode = (int)sim_clamp (op->a[1], 0, 2);
	fk = fmode ? (int)sim_clamp (op->a[0], 0, 100000) : 0;
	fentry = (int)sim_clamp (op->a[2], 0, 3);
    }
    sim_alloc_enter (op_index, fmode, fk, fentry);
    if (op->kind <= MOP_SET_DITHER_OFFSET || op->kind == MOP_ALIAS || op->kind == MOP_BITS_HUGE || op->kind == MOP_BITS_YUV || op->kind == MOP_BITS_REFUSED) step_image_op (m, op, a, n, st);
    else if (op->kind <= MOP_COMPOSITE_TRIS || op->kind == MOP_SCRIBBLE) step_draw_op (m, op, a, n, st);
    else if (op->kind <= MOP_GLYPHS) step_glyph_op (m, op, a, n, st);
    else if (op->kind <= MOP_R_FINI || op->kind == MOP_R_FROM_IMAGE || op->kind == MOP_R_SHARED_BINOP) step_region_op (m, op, a, n, st);
    else step_misc_op (m, op, a, n, st);
    sim_alloc_leave ();
    st->n_allocs = sim_alloc.n_allocs;
    st->n_failed = sim_alloc.n_failed;
    ledger_settle (m);
    machine_current = prev;
}

/* ------------------------------------------------------------ digests */

uint32_t
machine_pixmask (machine_t *m, int slot)
{
    mslot_t *s = &m->img[slot];
    uint32_t mask = fmt_defined_mask (s->fmt);
    if (PIXMAN_FORMAT_BPP (s->fmt) > 32)
    {
	/* float formats: per-component mask, components stored r g b [a] */
	int has_a = PIXMAN_FORMAT_BPP (s->fmt) == 128;
	uint32_t cm = has_a ? 0xfu : 0x7u;
	if (s->has_alpha < 0 && s->is_alpha_of == 0) return 0xffffffffu;
	if (s->has_alpha >= 0 && has_a) cm &= ~0x8u;
	if (s->is_alpha_of > 0) cm &= has_a ? 0x8u : 0u;
	return cm;
    }
    if (s->has_alpha >= 0) mask &= ~fmt_alpha_mask (s->fmt);
    if (s->is_alpha_of > 0) mask &= ~fmt_rgb_mask (s->fmt);
    return mask;
}

uint64_t
machine_hash_slot (machine_t *m, int slot, uint64_t h)
{
    mslot_t *s = &m->img[slot];
    if (!s->used || s->kind != MOP_BITS || !s->lowest || !s->img) return fnv_u64 (h, 0x5107);
    if (s->tile)
    {
	/* only our own pixels: what lies between our rows belongs to the neighbours */
	int y, used = (s->w * PIXMAN_FORMAT_BPP (s->fmt) + 7) / 8;
	for (y = 0; y < s->h; y++)
	    h = buf_hash_masked (h, s->lowest + (long)y * s->stride, s->fmt, s->w, 1, used, machine_pixmask (m, slot));
	return h;
    }
    return buf_hash_masked (h, s->lowest, s->fmt, s->w, s->h, s->stride, machine_pixmask (m, slot));
}

int
machine_adopt_tile (machine_t *m, int slot, int fmt_idx, int w, int h, uint8_t *first_pixel, int stride_bytes)
{
    mslot_t *s = &m->img[slot];
    pixman_image_t *img;
    sim_op_t op;
    if (s->used) return 0;
    img = pixman_image_create_bits_no_clear (sim_formats[fmt_idx], w, h, (uint32_t *)first_pixel, stride_bytes);
    if (!img) return 0;
    memset (&op, 0, sizeof op);
    op.kind = MOP_BITS;
    install_new_image (m, slot, MOP_BITS, img, &op);
    s->fmt = sim_formats[fmt_idx]; s->fmt_idx = fmt_idx; s->w = w; s->h = h;
    s->stride = stride_bytes; s->lowest = first_pixel; s->storage = (size_t)stride_bytes * (h - 1) + (size_t)(w * PIXMAN_FORMAT_BPP (s->fmt) + 7) / 8;
    s->tile = 1;
    return 1;
}

long
machine_compare_slot (machine_t *a, machine_t *b, int slot)
{
    mslot_t *sa = &a->img[slot], *sb = &b->img[slot];
    int ua = sa->used && sa->img && sa->kind == MOP_BITS, ub = sb->used && sb->img && sb->kind == MOP_BITS;
    if (!ua && !ub) return -1;
    if (ua != ub) return 0;
    if (sa->storage != sb->storage) return 0;
    return buf_compare_masked (sa->lowest, sb->lowest, sa->fmt, sa->w, sa->h, sa->stride, machine_pixmask (a, slot));
}

uint64_t
machine_hash_region (machine_t *m, int width, int slot, uint64_t h)
{
    int n = 0;
    if (width == 32)
    {
	pixman_box32_t *b;
	if (!m->r32_init[slot]) return fnv_u64 (h, 1);
	b = pixman_region32_rectangles (&m->r32[slot], &n);
	h = fnv_u64 (h, (uint64_t)n);
	h = fnv_bytes (h, b, (size_t)n * sizeof *b);
	if (n) h = fnv_bytes (h, pixman_region32_extents (&m->r32[slot]), sizeof *b);
    }
    else
    {
	pixman_box16_t *b;
	if (!m->r16_init[slot]) return fnv_u64 (h, 1);
	b = pixman_region_rectangles (&m->r16[slot], &n);
	h = fnv_u64 (h, (uint64_t)n);
	h = fnv_bytes (h, b, (size_t)n * sizeof *b);
	if (n) h = fnv_bytes (h, pixman_region_extents (&m->r16[slot]), sizeof *b);
    }
    return h;
}

uint64_t
machine_hash_all (machine_t *m, uint64_t h)
{
    int i;
    for (i = 0; i < M_NIMG; i++) h = machine_hash_slot (m, i, h);
    for (i = 0; i < M_NREG; i++) { h = machine_hash_region (m, 32, i, h); h = machine_hash_region (m, 16, i, h); }
    return h;
}

int
machine_check_canaries (machine_t *m)
{
    int i;
    for (i = 0; i < M_NIMG; i++)
    {
	long where = 0;
	if (m->img[i].buf && arena_check (m->img[i].buf, &where))
	{
	    if (!m->canary_violation)
	    {
		m->canary_violation = 1;
		snprintf (m->canary_detail, sizeof m->canary_detail, "byte at offset %ld relative to the storage of slot %d (size %zu) was overwritten (op %d)",
			  where, i, m->img[i].storage, m->cur_op);
	    }
	    return 1;
	}
    }
    return 0;
}

uint8_t *
machine_snapshot (machine_t *m, int slot)
{
    mslot_t *s = &m->img[slot];
    uint8_t *p;
    if (!s->used || s->kind != MOP_BITS || !s->lowest || !s->img) return NULL;
    p = malloc (s->storage ? s->storage : 1);
    if (p) memcpy (p, s->lowest, s->storage);
    return p;
}

void
machine_restore (machine_t *m, int slot, const uint8_t *snap)
{
    mslot_t *s = &m->img[slot];
    if (!snap || !s->used || s->kind != MOP_BITS || !s->lowest || !s->img) return;
    memcpy (s->lowest, snap, s->storage);
}

/* ------------------------------------------------------------ replica */

static pixman_image_t *
replica_one (machine_t *m, int slot, int share, arena_buf_t **out_buf, int with_alpha,
	     pixman_image_t **out_alpha, arena_buf_t **out_alpha_buf)
{
    mslot_t *s = &m->img[slot];
    const sim_op_t *cop = &s->create_op;
    const int64_t *a = cop->a + M_PREFIX;
    int n = cop->n - M_PREFIX, k;
    pixman_image_t *img;
    static const int order[] = { MOP_SET_ACCESSORS, MOP_SET_INDEXED, MOP_SET_TRANSFORM, MOP_SET_FILTER, MOP_SET_REPEAT,
				 -1 /* clip */, MOP_SET_CLIENT_CLIP, MOP_SET_SOURCE_CLIPPING, MOP_SET_COMPONENT_ALPHA,
				 MOP_SET_DITHER, MOP_SET_DITHER_OFFSET };
    if (n < 0) n = 0;
    if (out_buf) *out_buf = NULL;
    if (s->kind == MOP_BITS)
    {
	bits_geom_t g;
	decode_bits (a, n, &g);
	if (cop->kind == MOP_BITS_YUV) decode_yuv (a, n, &g);
	else if (cop->kind == MOP_ALIAS)
	{
	    /* an alias has no geometry of its own in its creation op */
	    memset (&g, 0, sizeof g);
	    g.fmt = s->fmt; g.fmt_idx = s->fmt_idx; g.w = s->w; g.h = s->h;
	    g.stride = s->stride < 0 ? -s->stride : s->stride; g.neg = s->stride < 0;
	}
	else if (s->lib_owned)
	{
	    /* describe pixman's own buffer truthfully */
	    g.stride = s->stride; g.neg = 0; g.w = s->w; g.h = s->h;
	}
	img = make_bits_image (&g, out_buf, NULL, m->guarded, share ? NULL : s->lowest, share ? s->lowest : NULL);
	if (!img) return NULL;
	if (fmt_is_indexed (g.fmt)) pixman_image_set_indexed (img, get_palette (0, g.fmt));
	if ((g.flags & 1) && !s->lib_owned) pixman_image_set_accessors (img, acc_read, acc_write);
	if ((g.flags & 1) && s->lib_owned && PIXMAN_FORMAT_BPP (g.fmt) <= 32) pixman_image_set_accessors (img, acc_read, acc_write);
    }
    else
    {
	img = make_nonbits_image (s->kind, a, n);
	if (!img) return NULL;
    }
    for (k = 0; k < (int)(sizeof order / sizeof order[0]); k++)
    {
	int mop = order[k], pk;
	const sim_op_t *pop;
	if (mop < 0) pk = P_CLIP; else pk = prop_kind_of (mop);
	if (!s->prop_set[pk]) continue;
	pop = &s->prop[pk];
	apply_prop (img, s->fmt, s->kind == MOP_BITS, pop->kind, pop->a + M_PREFIX, pop->n - M_PREFIX < 0 ? 0 : pop->n - M_PREFIX, NULL);
    }
    if (with_alpha && s->has_alpha >= 0 && s->prop_set[P_ALPHA_MAP])
    {
	const sim_op_t *pop = &s->prop[P_ALPHA_MAP];
	pixman_image_t *ai;
	if (s->has_alpha == slot)
	    ai = img;                       /* self-attachment */
	else
	    ai = replica_one (m, s->has_alpha, share, out_alpha_buf, 0, NULL, NULL);
	if (ai)
	{
	    apply_prop (img, s->fmt, s->kind == MOP_BITS, MOP_SET_ALPHA_MAP, pop->a + M_PREFIX, pop->n - M_PREFIX < 0 ? 0 : pop->n - M_PREFIX, ai);
	    if (out_alpha) *out_alpha = ai == img ? NULL : ai;
	    else if (ai != img) pixman_image_unref (ai);
	}
    }
    return img;
}

pixman_image_t *
machine_replica (machine_t *m, int slot, int share, arena_buf_t **out_buf,
		 pixman_image_t **out_alpha, arena_buf_t **out_alpha_buf)
{
    machine_t *prev = machine_current;
    pixman_image_t *img;
    if (out_alpha) *out_alpha = NULL;
    if (out_alpha_buf) *out_alpha_buf = NULL;
    if (!img_ok (m, slot)) return NULL;
    machine_current = m;
    img = replica_one (m, slot, share, out_buf, 1, out_alpha, out_alpha_buf);
    machine_current = prev;
    return img;
}

/* Clear the bits of a slot's pixels that carry no information (unused x bits;
 * own alpha bits when an alpha map is attached; colour bits of an image that
 * serves as alpha map).  Implementations legitimately leave different junk
 * there; a caller that later copies the raw bits (pixman_blt) would spread
 * the junk into defined bits, so worlds that compare executions clear it on
 * every side after each drawing op. */
void
machine_normalise_slot (machine_t *m, int slot)
{
    mslot_t *s;
    uint32_t mask;
    int bpp, x, y, st;
    if (slot < 0) return;
    s = &m->img[slot];
    if (!s->used || s->kind != MOP_BITS || !s->lowest || !s->img) return;
    bpp = PIXMAN_FORMAT_BPP (s->fmt);
    if (bpp > 32)
    {
	/* float formats: a component outside [0,1] (non-premultiplied input fed to a blend
	 * mode can produce one), a NaN or a negative zero is not a picture; a later operator
	 * that is skipped on one chain and round-trips through the float pipeline on another
	 * would clamp it on one side only */
	long i, nf = (long)s->storage / 4;
	float *f = (float *)s->lowest;
	for (i = 0; i < nf; i++)
	{
	    float v = f[i];
	    if (!(v > 0.0f)) v = 0.0f;           /* also NaN and -0 */
	    else if (v > 1.0f) v = 1.0f;
	    f[i] = v;
	}
	return;
    }
    mask = machine_pixmask (m, slot);
    if (mask == (bpp == 32 ? 0xffffffffu : ((1u << bpp) - 1))) return;
    st = s->stride < 0 ? -s->stride : s->stride;
    for (y = 0; y < s->h; y++)
    {
	uint8_t *row = s->lowest + (long)y * st;
	for (x = 0; x < s->w; x++)
	{
	    switch (bpp)
	    {
	    case 32: ((uint32_t *)row)[x] &= mask; break;
	    case 16: ((uint16_t *)row)[x] &= (uint16_t)mask; break;
	    case 8: row[x] &= (uint8_t)mask; break;
	    case 24: row[3 * x] &= (uint8_t)mask; row[3 * x + 1] &= (uint8_t)(mask >> 8); row[3 * x + 2] &= (uint8_t)(mask >> 16); break;
	    case 4: if (x & 1) row[x >> 1] &= (uint8_t)(0x0f | (mask << 4)); else row[x >> 1] &= (uint8_t)(0xf0 | mask); break;
	    case 1: if (!(mask & 1)) row[x >> 3] &= (uint8_t)~(1u << (x & 7)); break;
	    }
	}
    }
}
