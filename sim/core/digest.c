/* "The same pixels": buffers are compared on the defined bits of each pixel
 * plus every byte that is not part of a pixel (row padding).  The unused x
 * bits are excluded, exactly as test/utils.c:compute_crc32_for_image does. */
#include "sim.h"

uint32_t
fmt_alpha_mask (pixman_format_code_t fmt)
{
    int bpp = PIXMAN_FORMAT_BPP (fmt), a = PIXMAN_FORMAT_A (fmt);
    uint32_t full = bpp >= 32 ? 0xffffffffu : ((1u << bpp) - 1);
    uint32_t m;
    if (!a || bpp > 32) return 0;
    m = a >= 32 ? 0xffffffffu : ((1u << a) - 1);
    switch (PIXMAN_FORMAT_TYPE (fmt))
    {
    case PIXMAN_TYPE_A:
    case PIXMAN_TYPE_BGRA:
    case PIXMAN_TYPE_RGBA:
	return m & full;                     /* alpha at the bottom */
    default:
	/* ARGB / ABGR: alpha sits just above the colour bits */
	return (m << (PIXMAN_FORMAT_R (fmt) + PIXMAN_FORMAT_G (fmt) + PIXMAN_FORMAT_B (fmt))) & full;
    }
}

uint32_t
fmt_rgb_mask (pixman_format_code_t fmt)
{
    int bpp = PIXMAN_FORMAT_BPP (fmt);
    int rgb = PIXMAN_FORMAT_R (fmt) + PIXMAN_FORMAT_G (fmt) + PIXMAN_FORMAT_B (fmt);
    uint32_t m;
    if (!rgb || bpp > 32) return 0;
    m = rgb >= 32 ? 0xffffffffu : ((1u << rgb) - 1);
    switch (PIXMAN_FORMAT_TYPE (fmt))
    {
    case PIXMAN_TYPE_BGRA:
    case PIXMAN_TYPE_RGBA:
	return m << (bpp - rgb);             /* colour at the top */
    case PIXMAN_TYPE_ARGB:
    case PIXMAN_TYPE_ABGR:
    case PIXMAN_TYPE_ARGB_SRGB:
	return m;
    default:
	return 0;
    }
}

uint32_t
fmt_defined_mask (pixman_format_code_t fmt)
{
    int bpp = PIXMAN_FORMAT_BPP (fmt), depth = PIXMAN_FORMAT_DEPTH (fmt);
    uint32_t full = bpp >= 32 ? 0xffffffffu : ((1u << bpp) - 1);
    uint32_t m;
    if (bpp > 32) return 0xffffffffu;        /* float formats: every bit */
    if (depth == 0 || depth == bpp) return full;
    m = (1u << depth) - 1;
    if (PIXMAN_FORMAT_TYPE (fmt) == PIXMAN_TYPE_BGRA || PIXMAN_FORMAT_TYPE (fmt) == PIXMAN_TYPE_RGBA)
	m <<= (bpp - depth);
    return m & full;
}

static inline uint32_t
get_pixel (const uint8_t *row, int bpp, int x)
{
    switch (bpp)
    {
    case 1:  return (row[x >> 3] >> (x & 7)) & 1;               /* little endian bit order */
    case 4:  return (x & 1) ? (row[x >> 1] >> 4) : (row[x >> 1] & 0xf);
    case 8:  return row[x];
    case 16: return ((const uint16_t *)row)[x];
    case 24: return row[3 * x] | (row[3 * x + 1] << 8) | ((uint32_t)row[3 * x + 2] << 16);
    case 32: return ((const uint32_t *)row)[x];
    default: return 0;
    }
}

long
buf_compare_masked (const uint8_t *a, const uint8_t *b, pixman_format_code_t fmt,
		    int width, int height, int stride_bytes, uint32_t pixmask)
{
    int bpp = PIXMAN_FORMAT_BPP (fmt);
    int s = stride_bytes < 0 ? -stride_bytes : stride_bytes;
    long used = ((long)width * bpp + 7) / 8;
    int y, x;
    if (bpp > 32 && pixmask != 0xffffffffu)
    {
	/* float formats: pixmask is a per-component mask (bit c = compare component c) */
	int nc = bpp / 32, c;
	for (y = 0; y < height; y++)
	{
	    const uint32_t *ra = (const uint32_t *)(a + (long)y * s), *rb = (const uint32_t *)(b + (long)y * s);
	    long i;
	    for (x = 0; x < width; x++)
		for (c = 0; c < nc; c++)
		    if ((pixmask >> c & 1) && ra[x * nc + c] != rb[x * nc + c]) return (long)y * s + ((long)x * nc + c) * 4;
	    for (i = used; i < s; i++)
		if (a[(long)y * s + i] != b[(long)y * s + i]) return (long)y * s + i;
	}
	return -1;
    }
    if (bpp > 32 || pixmask == 0xffffffffu)
    {
	long i, n = (long)s * height;
	if (!memcmp (a, b, n)) return -1;
	for (i = 0; i < n; i++) if (a[i] != b[i]) return i;
	return -1;
    }
    for (y = 0; y < height; y++)
    {
	const uint8_t *ra = a + (long)y * s, *rb = b + (long)y * s;
	long i;
	if (!memcmp (ra, rb, s)) continue;
	for (x = 0; x < width; x++)
	    if ((get_pixel (ra, bpp, x) ^ get_pixel (rb, bpp, x)) & pixmask)
		return (long)y * s + (long)x * bpp / 8;
	/* bits of the last partial byte that are beyond the last pixel, and the row padding */
	if ((width * bpp) & 7)
	{
	    int keep = (width * bpp) & 7;
	    uint8_t m = (uint8_t)(0xff << keep);
	    if ((ra[used - 1] ^ rb[used - 1]) & m) return (long)y * s + used - 1;
	}
	for (i = used; i < s; i++)
	    if (ra[i] != rb[i]) return (long)y * s + i;
    }
    return -1;
}

uint64_t
buf_hash_masked (uint64_t h, const uint8_t *a, pixman_format_code_t fmt,
		 int width, int height, int stride_bytes, uint32_t pixmask)
{
    int bpp = PIXMAN_FORMAT_BPP (fmt);
    int s = stride_bytes < 0 ? -stride_bytes : stride_bytes;
    long used = ((long)width * bpp + 7) / 8;
    int y, x;
    if (bpp > 32 && pixmask != 0xffffffffu)
    {
	int nc = bpp / 32, c;
	for (y = 0; y < height; y++)
	{
	    const uint32_t *ra = (const uint32_t *)(a + (long)y * s);
	    for (x = 0; x < width; x++)
		for (c = 0; c < nc; c++)
		    if (pixmask >> c & 1) h = fnv_bytes (h, &ra[x * nc + c], 4);
	    if (s > used) h = fnv_bytes (h, a + (long)y * s + used, s - used);
	}
	return h;
    }
    if (bpp > 32 || pixmask == 0xffffffffu)
	return fnv_bytes (h, a, (size_t)s * height);
    for (y = 0; y < height; y++)
    {
	const uint8_t *ra = a + (long)y * s;
	for (x = 0; x < width; x++)
	{
	    uint32_t p = get_pixel (ra, bpp, x) & pixmask;
	    h = fnv_bytes (h, &p, 4);
	}
	if ((width * bpp) & 7)
	{
	    uint8_t m = (uint8_t)(0xff << ((width * bpp) & 7));
	    uint8_t v = ra[used - 1] & m;
	    h = fnv_bytes (h, &v, 1);
	}
	if (s > used) h = fnv_bytes (h, ra + used, s - used);
    }
    return h;
}
