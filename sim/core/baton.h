/* Seeded baton scheduler for real pthreads.  Exactly one simulated thread
 * runs at a time; which one runs next is read from an explicit schedule.
 * This file's implementation is compiled WITHOUT -fsanitize=thread, so that
 * ThreadSanitizer sees no happens-before edge at a hand-off and still
 * race-checks every instrumented access in pixman under a schedule that the
 * simulator chose and can replay. */
#ifndef PXSIM_BATON_H
#define PXSIM_BATON_H
#include <stdint.h>

#define BATON_MAX_THREADS 8
#define BATON_MAIN (-1)

void baton_reset (int n_threads, const int64_t *schedule, int n_schedule);
void baton_wait_turn (int me);              /* block until it is my turn */
void baton_start (int first);               /* main: give the baton to a worker and wait until all are done */
void baton_finish (int me);                 /* worker: done; hand over to the next runnable one (or main) */
/* scheduling point: may hand the baton to another runnable thread and block
 * until it comes back.  bias = 1 marks a point right after a write to shared
 * library state, where a planned switch is taken from the 'hot' decisions */
void baton_point (int me);
long baton_points (void);
long baton_switches (void);
uint64_t baton_interleaving_hash (void);    /* hash of the realised (point, from, to) sequence */

/* access ledger (exact, replayable race detection at the hooked sites) */
typedef struct { int thread, site, rw; const void *obj; } ledger_entry_t;
void ledger_add (int thread, int site, int rw, const void *obj);
int  ledger_count (void);
const ledger_entry_t *ledger_get (int i);
#endif
