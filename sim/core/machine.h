/* The "machine": one self-contained replica of a scene (images with their
 * simulator-owned pixel storage, regions, glyph caches) plus an interpreter
 * that executes one explicit op at a time against the real pixman.  Worlds
 * run several machines from the same op list (fault-free vs faulted, one per
 * chain, one per simulated thread, long-lived vs fresh replica) and compare.
 *
 * Every op is total: any integer is accepted for any argument (reduced
 * modulo its domain), an op whose operand does not exist is a no-op.  Hence
 * every sub-list of a valid op list is valid, which is what lets the generic
 * shrinker drop lines and simplify numbers blindly.
 */
#ifndef PXSIM_MACHINE_H
#define PXSIM_MACHINE_H

#include "sim.h"

#define M_NIMG 12
#define M_NREG 4
#define M_NGC  2
#define M_PREFIX 3         /* fault ordinal k, fault mode, entry-point restriction */

enum
{
    /* images */
    MOP_BITS, MOP_SOLID, MOP_LINEAR, MOP_RADIAL, MOP_CONICAL,
    MOP_REF, MOP_UNREF, MOP_SET_DESTROY,
    MOP_SET_TRANSFORM, MOP_SET_FILTER, MOP_SET_REPEAT, MOP_SET_CLIP32, MOP_SET_CLIP16,
    MOP_SET_CLIENT_CLIP, MOP_SET_SOURCE_CLIPPING, MOP_SET_ALPHA_MAP, MOP_SET_COMPONENT_ALPHA,
    MOP_SET_ACCESSORS, MOP_SET_INDEXED, MOP_SET_DITHER, MOP_SET_DITHER_OFFSET,
    /* drawing */
    MOP_COMPOSITE, MOP_FILL_BOXES, MOP_FILL_RECTS, MOP_FILL, MOP_BLT,
    MOP_ADD_TRAPS, MOP_ADD_TRAPEZOIDS, MOP_RASTERIZE_TRAP, MOP_COMPOSITE_TRAPS,
    MOP_ADD_TRIS, MOP_COMPOSITE_TRIS,
    /* glyph cache */
    MOP_GC_CREATE, MOP_GC_DESTROY, MOP_GC_FREEZE, MOP_GC_THAW, MOP_GC_INSERT, MOP_GC_REMOVE,
    MOP_GLYPHS,
    /* regions */
    MOP_R_INIT_RECTS, MOP_R_BINOP, MOP_R_RECTOP, MOP_R_COPY, MOP_R_INVERSE, MOP_R_CONV, MOP_R_FINI,
    /* misc allocation sites */
    MOP_FILTER_CREATE, MOP_COMPUTE_REGION,
    /* meta */
    MOP_SCRIBBLE,           /* caller overwrites pixels of an image it owns */
    MOP_ALIAS,              /* a second image over the pixels of another one (the "pixbuf" idiom: x888 source + a888 mask on the same bits) */
    MOP_BITS_HUGE,          /* an image of 4 GiB or more whose pixels pixman allocates itself */
    MOP_BITS_YUV,           /* a source image in one of the two YUV formats (yuy2, yv12): can be read, never written */
    MOP_R_FROM_IMAGE,       /* pixman_region{,32}_init_from_image of an a1 image in a slot */
    MOP_BITS_REFUSED,       /* pixman_image_create_bits with a row stride that is not a multiple of 4: must return NULL and keep nothing */
    MOP_R_SHARED_BINOP,     /* union / intersect / subtract with an operand from another machine's regions (shared, read-only) */
    MOP_N
};

extern const char *mop_names[MOP_N];

typedef struct
{
    int used;
    int kind;                     /* MOP_BITS .. MOP_CONICAL */
    pixman_image_t *img;
    int refs;                     /* references the machine (= the user) holds */
    pixman_format_code_t fmt;
    int fmt_idx;
    int w, h, stride;             /* stride in bytes, signed */
    arena_buf_t *buf;             /* NULL when pixman owns the pixels */
    uint8_t *lowest;              /* lowest address of the storage */
    size_t storage;               /* |stride| * h */
    int lib_owned;
    int accessors;
    int destroy_calls;            /* how often the destroy callback ran for the current object */
    int cb_id;                    /* 0 = none registered */
    /* model: last successfully applied op per property kind */
    sim_op_t create_op;
    sim_op_t prop[16];
    uint8_t  prop_set[16];
    int is_alpha_of;              /* how many machine images currently have it attached (model) */
    int has_alpha;                /* slot of attached alpha map or -1 (model) */
    uint64_t serial;              /* creation serial within the machine */
    int yuv;                      /* yuy2 / yv12: pixman has no store function for it, so it is never a destination */
    int tile;                     /* storage is a tile of a canvas shared with other machines: row padding is not ours */
} mslot_t;

typedef struct machine
{
    mslot_t img[M_NIMG];
    pixman_region32_t r32[M_NREG];
    pixman_region16_t r16[M_NREG];
    uint8_t r32_init[M_NREG], r16_init[M_NREG];
    uint8_t r32_broken[M_NREG], r16_broken[M_NREG];   /* model: the op that last wrote it reported failure */
    pixman_glyph_cache_t *gc[M_NGC];
    int gc_freeze[M_NGC];
    /* configuration */
    int faults_enabled;
    int guarded;                  /* pixel storage with guard pages */
    int flush_hi_toggle;
    int chain;                    /* -1: leave global_implementation alone */
    /* observation */
    int cur_op;
    int active[6];                /* image slots participating in the current request */
    int n_active;
    int acc_violation;            /* accessor callback outside the storage of a participating image */
    char acc_detail[160];
    long acc_calls;
    int canary_violation;
    char canary_detail[160];
    uint64_t serial;
    /* callback ledger (C20) */
    int cb_total;
    int cb_unexpected;            /* destroy callback for an object the machine no longer tracks */
    arena_buf_t *retired[64];     /* storage of released images: kept until the machine goes, aliases may still point into it */
    int n_retired;
    struct machine *shared_regions;   /* regions of this machine serve as read-only operands of r_shared_binop (NULL: none) */
    int allow_huge;               /* MOP_BITS_HUGE is honoured (only the world that never walks whole images sets it) */
    int own_violation;            /* pixel storage pixman allocated itself is smaller than the image it describes */
    char own_detail[160];
    int ledger_violation;         /* lifetime ledger (C20): first discrepancy */
    char ledger_detail[200];
    uint8_t releasing[M_NIMG];    /* slots the model releases in the current op */
} machine_t;

typedef struct
{
    int executed;                 /* 0 = no-op (operand missing / slot occupied) */
    int is_draw;                  /* may have changed pixels of dst_slot */
    int dst_slot;                 /* image slot written, or -1 */
    int dst2_slot;                /* its alpha map, or -1 */
    int ret;                      /* boolean result / non-NULL result; 1 for void */
    int has_status;               /* the call has a status result at all */
    int n_allocs, n_failed;
    int region_written;           /* 0 none, 32 or 16 */
    int region_slot;
    int model_ret;                /* what the model says ret must be (valid when model_valid) */
    int model_valid;
    int created_slot;             /* image slot a constructor filled, or -1 */
    uint64_t aux;                 /* digest of a result that lives outside the machine (a filter table) */
} mstep_t;

machine_t *machine_new (int faults_enabled, int guarded, int chain);
void       machine_free (machine_t *m);           /* releases everything still alive, fault-free */
void       machine_step (machine_t *m, const sim_op_t *op, int op_index, mstep_t *st);

/* digests */
uint64_t   machine_hash_slot (machine_t *m, int slot, uint64_t h);
uint64_t   machine_hash_region (machine_t *m, int width, int slot, uint64_t h);
uint64_t   machine_hash_all (machine_t *m, uint64_t h);
/* compare the pixels of the same slot in two machines on the defined bits
 * (alpha-map don't-care bits excluded when the slot has / is an alpha map).
 * -1 if equal, else byte offset. */
long       machine_compare_slot (machine_t *a, machine_t *b, int slot);
/* mask of the bits of one pixel that are compared for this slot */
uint32_t   machine_pixmask (machine_t *m, int slot);
int        machine_check_canaries (machine_t *m);
void       machine_normalise_slot (machine_t *m, int slot);
/* slot := bits image over caller-provided memory (a tile of a larger canvas); the machine does not own the storage */
int        machine_adopt_tile (machine_t *m, int slot, int fmt_idx, int w, int h, uint8_t *first_pixel, int stride_bytes);

/* snapshot / restore of the pixels of one slot */
uint8_t   *machine_snapshot (machine_t *m, int slot);   /* malloc'ed copy (harness memory) */
void       machine_restore (machine_t *m, int slot, const uint8_t *snap);

/* format table */
extern const pixman_format_code_t sim_formats[];
extern const int sim_n_formats;
const char *sim_format_name (pixman_format_code_t f);
extern const pixman_op_t sim_ops[];
extern const int sim_n_ops;

/* thread world: called at every accessor callback */
extern void (*machine_accessor_hook) (void);
/* current machine for the calling thread (accessor and destroy callbacks) */
extern __thread machine_t *machine_current;

/* fresh replica (C14): build a new image with the same final properties as
 * slot's, from the model; pixels shared (share=1) or byte-copied into new
 * storage with the same alignment (share=0).  out_buf receives the new
 * storage when share=0.  Returns NULL when it cannot be built. */
pixman_image_t *machine_replica (machine_t *m, int slot, int share, arena_buf_t **out_buf,
				 pixman_image_t **out_alpha, arena_buf_t **out_alpha_buf);

#endif
