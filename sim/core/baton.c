#include "baton.h"
#include <unistd.h>
#include <sys/syscall.h>
#include <linux/futex.h>
#include <limits.h>
#include <stddef.h>

static int turn = BATON_MAIN;          /* whose turn it is */
static int n_thr;
static int done[BATON_MAX_THREADS];
static int n_done;
static const int64_t *sched;
static int n_sched, sched_pos;
static long points, switches;
static uint64_t ihash;

#define LEDGER_MAX 200000
static ledger_entry_t ledger[LEDGER_MAX];
static int n_ledger;

static void futex_wait (int *addr, int val) { syscall (SYS_futex, addr, FUTEX_WAIT, val, NULL, NULL, 0); }
static void futex_wake (int *addr) { syscall (SYS_futex, addr, FUTEX_WAKE, INT_MAX, NULL, NULL, 0); }

void
baton_reset (int n_threads, const int64_t *schedule, int n_schedule)
{
    int i;
    n_thr = n_threads;
    for (i = 0; i < BATON_MAX_THREADS; i++) done[i] = 0;
    n_done = 0;
    sched = schedule; n_sched = n_schedule; sched_pos = 0;
    points = switches = 0;
    ihash = 0xcbf29ce484222325ull;
    n_ledger = 0;
    __atomic_store_n (&turn, BATON_MAIN, __ATOMIC_SEQ_CST);
}

void
baton_wait_turn (int me)
{
    for (;;)
    {
	int t = __atomic_load_n (&turn, __ATOMIC_ACQUIRE);
	if (t == me) return;
	futex_wait (&turn, t);
    }
}

static void
pass_to (int to)
{
    __atomic_store_n (&turn, to, __ATOMIC_RELEASE);
    futex_wake (&turn);
}

void
baton_start (int first)
{
    pass_to (first);
    baton_wait_turn (BATON_MAIN);
}

static int
next_runnable (int from, int skip)
{
    /* the skip-th runnable thread other than `from`, in index order starting after from */
    int i, cnt = 0, cand[BATON_MAX_THREADS];
    for (i = 1; i <= n_thr; i++)
    {
	int t = (from + i) % n_thr;
	if (t != from && !done[t]) cand[cnt++] = t;
    }
    if (!cnt) return -2;
    return cand[skip % cnt];
}

void
baton_finish (int me)
{
    int to;
    done[me] = 1;
    n_done++;
    to = next_runnable (me, 0);
    if (to == -2) pass_to (BATON_MAIN);
    else
    {
	ihash = (ihash ^ (uint64_t)(points * 64 + me * 8 + to)) * 0x100000001b3ull;
	pass_to (to);
    }
}

void
baton_point (int me)
{
    int64_t d;
    int to;
    points++;
    if (sched_pos >= n_sched) return;
    d = sched[sched_pos++];
    if (d <= 0) return;
    to = next_runnable (me, (int)((d - 1) % BATON_MAX_THREADS));
    if (to == -2) return;
    switches++;
    ihash = (ihash ^ (uint64_t)(points * 64 + me * 8 + to)) * 0x100000001b3ull;
    pass_to (to);
    baton_wait_turn (me);
}

long baton_points (void) { return points; }
long baton_switches (void) { return switches; }
uint64_t baton_interleaving_hash (void) { return ihash; }

void
ledger_add (int thread, int site, int rw, const void *obj)
{
    if (n_ledger >= LEDGER_MAX) return;
    ledger[n_ledger].thread = thread; ledger[n_ledger].site = site; ledger[n_ledger].rw = rw; ledger[n_ledger].obj = obj;
    n_ledger++;
}
int ledger_count (void) { return n_ledger; }
const ledger_entry_t *ledger_get (int i) { return &ledger[i]; }
