/* Allocation seam.  Linked with -Wl,--wrap=malloc,calloc,realloc,free, so
 * every allocation pixman makes lands here (and so does the harness's own,
 * which passes straight through because it happens outside an armed window).
 *
 * Inside an armed window (= one pixman API call) the wrapper counts the
 * allocation requests, fails the ones the fault plan of this op names,
 * records every block it hands out, and checks every pointer given to
 * free/realloc against that record.  Nothing here draws random numbers: the
 * plan is explicit and attached to the op.
 */
#include "sim.h"

void *__real_malloc (size_t);
void *__real_calloc (size_t, size_t);
void *__real_realloc (void *, size_t);
void  __real_free (void *);

sim_alloc_t sim_alloc;

#define TAB_BITS 18
#define TAB_SIZE (1u << TAB_BITS)
#define TOMB ((const void *)1)

typedef struct
{
    const void *p;
    size_t      size;
    const void *site;
    int         op;
    uint32_t    gen;        /* slot belongs to the current run iff gen == cur_gen */
} live_t;

static uint32_t cur_gen = 1;
#define EMPTY(i) (tab[i].gen != cur_gen || tab[i].p == NULL)

static live_t tab[TAB_SIZE];
static unsigned tab_used;       /* live + tombstones */

static inline unsigned
slot_of (const void *p)
{
    return (unsigned)(((uintptr_t)p >> 4) * 0x9e3779b1u) >> (32 - TAB_BITS);
}

static live_t *
tab_find (const void *p)
{
    unsigned i = slot_of (p), n;
    for (n = 0; n < TAB_SIZE; n++, i = (i + 1) & (TAB_SIZE - 1))
    {
	if (EMPTY (i)) return NULL;
	if (tab[i].p == p) return &tab[i];
    }
    return NULL;
}

static void
tab_add (const void *p, size_t size, const void *site)
{
    unsigned i = slot_of (p), n;
    if (tab_used >= TAB_SIZE - 16)
    {
	fprintf (stderr, "pxsim: live allocation table full\n");
	_exit (2);
    }
    for (n = 0; n < TAB_SIZE; n++, i = (i + 1) & (TAB_SIZE - 1))
    {
	if (EMPTY (i) || tab[i].p == TOMB)
	{
	    if (EMPTY (i)) tab_used++;
	    tab[i].gen = cur_gen;
	    tab[i].p = p; tab[i].size = size; tab[i].site = site; tab[i].op = sim_alloc.op_index;
	    sim_alloc.live_blocks++;
	    sim_alloc.live_bytes += size;
	    return;
	}
    }
}

static int
tab_del (const void *p)
{
    live_t *l = tab_find (p);
    if (!l) return 0;
    sim_alloc.live_blocks--;
    sim_alloc.live_bytes -= l->size;
    l->p = TOMB;
    return 1;
}

void
sim_alloc_reset (void)
{
    cur_gen++;                      /* forgets every slot in O(1) */
    if (cur_gen == 0) { memset (tab, 0, sizeof tab); cur_gen = 1; }
    tab_used = 0;
    memset (&sim_alloc, 0, sizeof sim_alloc);
}

void
sim_alloc_enter (int op_index, int fault_mode, int fault_k, int fault_entry)
{
    if (!sim_alloc.tracking) return;      /* thread world: the wrapper is a pure pass-through, no shared writes */
    sim_alloc.armed = 1;
    sim_alloc.op_index = op_index;
    sim_alloc.fault_mode = fault_k > 0 ? fault_mode : FAULT_NONE;
    sim_alloc.fault_k = fault_k;
    sim_alloc.fault_entry = fault_entry;
    sim_alloc.n_allocs = 0;
    sim_alloc.n_matching = 0;
    sim_alloc.n_failed = 0;
    sim_alloc.first_fail_site = NULL;
}

void
sim_alloc_leave (void)
{
    if (!sim_alloc.tracking) return;
    sim_alloc.armed = 0;
}

int
sim_alloc_is_live (const void *p)
{
    return tab_find (p) != NULL;
}

void
sim_alloc_disown (const void *p)
{
    tab_del (p);
}

int
sim_alloc_live_sites (const void **sites, size_t *sizes, int *ops, int n)
{
    unsigned i;
    int c = 0;
    for (i = 0; i < TAB_SIZE; i++)
    {
	if (!EMPTY (i) && tab[i].p != TOMB)
	{
	    if (c < n) { sites[c] = tab[i].site; sizes[c] = tab[i].size; ops[c] = tab[i].op; }
	    c++;
	}
    }
    return c;
}

/* per-call-site statistics of faults that actually fired */
#define MAX_SITES 128
static struct { const void *site, *outer; int64_t fired; } fsites[MAX_SITES];
static int n_fsites;
static const void *cur_outer;      /* caller of the caller: tells pixman_malloc_ab()'s users apart */

static void
note_fired (const void *site)
{
    int i;
    for (i = 0; i < n_fsites; i++)
	if (fsites[i].site == site && fsites[i].outer == cur_outer) { fsites[i].fired++; return; }
    if (n_fsites < MAX_SITES) { fsites[n_fsites].site = site; fsites[n_fsites].outer = cur_outer; fsites[n_fsites++].fired = 1; }
}

static int64_t fired_single, fired_persistent, fired_entry_restricted;

void
sim_fault_site_stats (void)
{
    int i;
    if (fired_single) sim_count ("fault_kind.single", fired_single);
    if (fired_persistent) sim_count ("fault_kind.persistent", fired_persistent);
    if (fired_entry_restricted) sim_count ("fault_kind.restricted_to_one_entry_point", fired_entry_restricted);
    fired_single = fired_persistent = fired_entry_restricted = 0;
    char name[72];
    for (i = 0; i < n_fsites; i++)
    {
	snprintf (name, sizeof name, "fault_site@%p@%p", fsites[i].site, fsites[i].outer);
	sim_count (name, fsites[i].fired);
	fsites[i].fired = 0;
    }
    n_fsites = 0;
}

/* decide whether the allocation being requested now must fail */
static int
should_fail (int entry, const void *site)
{
    int match;
    sim_alloc.n_allocs++;
    sim_alloc.total_allocs++;
    match = sim_alloc.fault_entry == ENTRY_ANY || sim_alloc.fault_entry == entry;
    if (match) sim_alloc.n_matching++;
    if (sim_alloc.fault_mode == FAULT_NONE || !match) return 0;
    if ((sim_alloc.fault_mode == FAULT_SINGLE && sim_alloc.n_matching == sim_alloc.fault_k) ||
	(sim_alloc.fault_mode == FAULT_PERSISTENT && sim_alloc.n_matching >= sim_alloc.fault_k))
    {
	if (!sim_alloc.n_failed) sim_alloc.first_fail_site = site;
	sim_alloc.n_failed++;
	sim_alloc.total_failed++;
	if (sim_alloc.fault_mode == FAULT_SINGLE) fired_single++; else fired_persistent++;
	if (sim_alloc.fault_entry != ENTRY_ANY) fired_entry_restricted++;
	note_fired (site);
	return 1;
    }
    return 0;
}

void *
__wrap_malloc (size_t n)
{
    void *p;
    const void *site = __builtin_return_address (0);
    if (!sim_alloc.tracking || !sim_alloc.armed) return __real_malloc (n);
    cur_outer = __builtin_return_address (1);
    if (should_fail (ENTRY_MALLOC, site)) return NULL;
    p = __real_malloc (n);
    if (p) tab_add (p, n, site);
    return p;
}

void *
__wrap_calloc (size_t a, size_t b)
{
    void *p;
    const void *site = __builtin_return_address (0);
    if (!sim_alloc.tracking || !sim_alloc.armed) return __real_calloc (a, b);
    cur_outer = __builtin_return_address (1);
    if (should_fail (ENTRY_CALLOC, site)) return NULL;
    p = __real_calloc (a, b);
    if (p) tab_add (p, a * b, site);
    return p;
}

void *
__wrap_realloc (void *old, size_t n)
{
    void *p;
    const void *site = __builtin_return_address (0);
    if (!sim_alloc.tracking) return __real_realloc (old, n);
    if (!sim_alloc.armed)
    {
	if (old) tab_del (old);
	return __real_realloc (old, n);
    }
    if (old && !tab_find (old))
    {
	sim_alloc.bad_free++;
	if (!sim_alloc.bad_free_site) sim_alloc.bad_free_site = site;
	/* do not pass an unknown pointer on: behave like a failed realloc */
	return NULL;
    }
    cur_outer = __builtin_return_address (1);
    if (should_fail (ENTRY_REALLOC, site)) return NULL;     /* old block stays valid, as with real realloc */
    p = __real_realloc (old, n);
    if (p)
    {
	if (old) tab_del (old);
	tab_add (p, n, site);
    }
    return p;
}

void
__wrap_free (void *p)
{
    if (!p) return;
    if (sim_alloc.tracking)
    {
	if (!tab_del (p) && sim_alloc.armed)
	{
	    /* pixman is freeing something it never got from us in this run:
	     * a double free or a free of caller-owned memory.  Record it and do
	     * NOT forward it (so the run can go on and be reported properly). */
	    sim_alloc.bad_free++;
	    if (!sim_alloc.bad_free_site) sim_alloc.bad_free_site = __builtin_return_address (0);
	    return;
	}
    }
    __real_free (p);
}

int
sim_alloc_contains (const void *p, size_t n)
{
    unsigned i;
    for (i = 0; i < TAB_SIZE; i++)
	if (!EMPTY (i) && tab[i].p != TOMB &&
	    (const char *)p >= (const char *)tab[i].p && (const char *)p + n <= (const char *)tab[i].p + tab[i].size)
	    return 1;
    return 0;
}
