#include "sim.h"
#include <stdarg.h>
#include <unistd.h>
#include <fcntl.h>
#include <time.h>
#include <errno.h>
#include <signal.h>
#include <sys/wait.h>

FILE *sim_proto;
int sim_verbose;
sim_point_fn sim_point_handler;

/* The library calls this at every VERIF_POINT (hooks H2-H4). */
void
_pixman_verif_point (int site, const void *obj, int rw, const void *aux)
{
    if (sim_point_handler)
	sim_point_handler (site, obj, rw, aux);
}

/* Sanitizer deaths must be classifiable: exit code 77.  Leak accounting is
 * done exactly, per scenario, by the allocator wrapper. */
#if defined (SIM_VARIANT_ASAN)
__attribute__ ((used, visibility ("default"))) const char *
__asan_default_options (void)
{
    return "exitcode=77:detect_leaks=0:allocator_may_return_null=1:"
	   "handle_segv=1:abort_on_error=0:detect_stack_use_after_return=0:"
	   "max_allocation_size_mb=6144";
}
__attribute__ ((used, visibility ("default"))) const char *
__ubsan_default_options (void)
{
    return "halt_on_error=1:exitcode=77:print_stacktrace=1";
}
#endif
#if defined (SIM_VARIANT_TSAN)
__attribute__ ((used, visibility ("default"))) const char *
__tsan_default_options (void)
{
    return "exitcode=66:halt_on_error=0:report_signal_unsafe=0:second_deadlock_stack=1";
}
#endif

/* ------------------------------------------------------------------ PRNG */

uint64_t
sim_splitmix (uint64_t *x)
{
    uint64_t z = (*x += 0x9e3779b97f4a7c15ull);
    z = (z ^ (z >> 30)) * 0xbf58476d1ce4e5b9ull;
    z = (z ^ (z >> 27)) * 0x94d049bb133111ebull;
    return z ^ (z >> 31);
}

void
rng_seed (rng_t *r, uint64_t seed, uint64_t stream)
{
    uint64_t x = seed ^ (stream * 0xd1342543de82ef95ull);
    int i;
    for (i = 0; i < 4; i++)
	r->s[i] = sim_splitmix (&x);
}

static inline uint64_t rotl (uint64_t x, int k) { return (x << k) | (x >> (64 - k)); }

uint64_t
rng_u64 (rng_t *r)
{
    uint64_t *s = r->s;
    uint64_t result = rotl (s[1] * 5, 7) * 9;
    uint64_t t = s[1] << 17;
    s[2] ^= s[0]; s[3] ^= s[1]; s[1] ^= s[2]; s[0] ^= s[3];
    s[2] ^= t;
    s[3] = rotl (s[3], 45);
    return result;
}

uint32_t
rng_n (rng_t *r, uint32_t n)
{
    if (n <= 1) return 0;
    return (uint32_t)((rng_u64 (r) >> 11) % n);
}

int64_t
rng_range (rng_t *r, int64_t lo, int64_t hi)
{
    uint64_t span;
    if (hi <= lo) return lo;
    span = (uint64_t)(hi - lo) + 1;
    if (span == 0) return (int64_t)rng_u64 (r);
    return lo + (int64_t)((rng_u64 (r) >> 1) % span);
}

int
rng_chance (rng_t *r, uint32_t num, uint32_t den)
{
    return rng_n (r, den) < num;
}

/* -------------------------------------------------------------- scenario */

void
sc_init (scenario_t *sc)
{
    memset (sc, 0, sizeof *sc);
}

void
sc_free (scenario_t *sc)
{
    free (sc->ops);
    sc->ops = NULL;
    sc->n_ops = sc->cap_ops = 0;
}

void
sc_set (scenario_t *sc, const char *key, int64_t val)
{
    int i;
    for (i = 0; i < sc->n_params; i++)
	if (!strcmp (sc->params[i].key, key)) { sc->params[i].val = val; return; }
    if (sc->n_params >= SIM_MAX_PARAMS) { fprintf (stderr, "pxsim: too many params\n"); exit (2); }
    snprintf (sc->params[sc->n_params].key, sizeof sc->params[0].key, "%s", key);
    sc->params[sc->n_params++].val = val;
}

int64_t
sc_get (const scenario_t *sc, const char *key, int64_t dflt)
{
    int i;
    for (i = 0; i < sc->n_params; i++)
	if (!strcmp (sc->params[i].key, key)) return sc->params[i].val;
    return dflt;
}

sim_op_t *
sc_addv (scenario_t *sc, int kind, int n, const int64_t *a)
{
    sim_op_t *op;
    if (sc->n_ops == sc->cap_ops)
    {
	sc->cap_ops = sc->cap_ops ? 2 * sc->cap_ops : 64;
	sc->ops = realloc (sc->ops, sc->cap_ops * sizeof (sim_op_t));
	if (!sc->ops) { fprintf (stderr, "pxsim: out of memory\n"); exit (2); }
    }
    op = &sc->ops[sc->n_ops++];
    memset (op, 0, sizeof *op);
    op->kind = kind;
    if (n > SIM_MAX_ARGS) n = SIM_MAX_ARGS;
    op->n = n;
    if (a) memcpy (op->a, a, n * sizeof (int64_t));
    return op;
}

sim_op_t *
sc_add (scenario_t *sc, int kind, int n, ...)
{
    int64_t a[SIM_MAX_ARGS];
    va_list ap;
    int i;
    if (n > SIM_MAX_ARGS) n = SIM_MAX_ARGS;
    va_start (ap, n);
    for (i = 0; i < n; i++) a[i] = va_arg (ap, int64_t);
    va_end (ap);
    return sc_addv (sc, kind, n, a);
}

void
sc_print (const scenario_t *sc, const world_t *w, const char *property, FILE *f)
{
    int i, j;
    fprintf (f, "pxsim-replay 1\nworld %s\nproperty %s\nseed %llu\n", w->name,
	     property ? property : "-", (unsigned long long)sc->seed);
    if (sc->expect_class[0])
	fprintf (f, "class %s\n", sc->expect_class);
    for (i = 0; i < sc->n_params; i++)
	fprintf (f, "param %s %lld\n", sc->params[i].key, (long long)sc->params[i].val);
    for (i = 0; i < sc->n_ops; i++)
    {
	const sim_op_t *op = &sc->ops[i];
	fprintf (f, "op %s", w->op_names[op->kind]);
	for (j = 0; j < op->n; j++) fprintf (f, " %lld", (long long)op->a[j]);
	fputc ('\n', f);
    }
}

int
sc_parse (scenario_t *sc, const world_t *w, char *property_out, FILE *f)
{
    char *line = NULL;
    size_t cap = 0;
    int ok = 0;
    sc_init (sc);
    if (property_out) strcpy (property_out, "-");
    while (getline (&line, &cap, f) > 0)
    {
	char *tok, *save = NULL;
	tok = strtok_r (line, " \t\r\n", &save);
	if (!tok || tok[0] == '#') continue;
	if (!strcmp (tok, "pxsim-replay")) { ok = 1; continue; }
	if (!strcmp (tok, "world"))
	{
	    tok = strtok_r (NULL, " \t\r\n", &save);
	    if (!tok || strcmp (tok, w->name))
	    {
		/* glyph16/glyph64/glyph share one interpreter; accept prefix match */
		if (!tok || strncmp (tok, w->name, strlen (tok) < strlen (w->name) ? strlen (tok) : strlen (w->name)))
		{ fprintf (stderr, "pxsim: replay is for world %s\n", tok ? tok : "?"); free (line); return 0; }
	    }
	    continue;
	}
	if (!strcmp (tok, "property"))
	{
	    tok = strtok_r (NULL, " \t\r\n", &save);
	    if (tok && property_out) snprintf (property_out, 8, "%s", tok);
	    continue;
	}
	if (!strcmp (tok, "seed"))
	{
	    tok = strtok_r (NULL, " \t\r\n", &save);
	    if (tok) sc->seed = strtoull (tok, NULL, 10);
	    continue;
	}
	if (!strcmp (tok, "class"))
	{
	    tok = strtok_r (NULL, " \t\r\n", &save);
	    if (tok) snprintf (sc->expect_class, sizeof sc->expect_class, "%s", tok);
	    continue;
	}
	if (!strcmp (tok, "param"))
	{
	    char *k = strtok_r (NULL, " \t\r\n", &save);
	    char *v = strtok_r (NULL, " \t\r\n", &save);
	    if (k && v) sc_set (sc, k, strtoll (v, NULL, 10));
	    continue;
	}
	if (!strcmp (tok, "op"))
	{
	    int64_t a[SIM_MAX_ARGS];
	    int n = 0, kind = -1, i;
	    char *name = strtok_r (NULL, " \t\r\n", &save);
	    if (!name) continue;
	    for (i = 0; i < w->n_op_kinds; i++)
		if (!strcmp (w->op_names[i], name)) { kind = i; break; }
	    if (kind < 0) { fprintf (stderr, "pxsim: unknown op %s\n", name); free (line); return 0; }
	    while ((tok = strtok_r (NULL, " \t\r\n", &save)) && n < SIM_MAX_ARGS)
		a[n++] = strtoll (tok, NULL, 10);
	    sc_addv (sc, kind, n, a);
	    continue;
	}
	/* unknown line kinds (comments added by the driver) are ignored */
    }
    free (line);
    return ok;
}

/* --------------------------------------------------------------- counters */

#define MAX_COUNTERS 512
static struct { char name[72]; int64_t v; } counters[MAX_COUNTERS];
static int n_counters;

void
sim_count (const char *name, int64_t n)
{
    int i;
    for (i = 0; i < n_counters; i++)
	if (!strcmp (counters[i].name, name)) { counters[i].v += n; return; }
    if (n_counters >= MAX_COUNTERS) return;
    snprintf (counters[n_counters].name, sizeof counters[0].name, "%s", name);
    counters[n_counters++].v = n;
}

#define DSET_BITS 16
#define MAX_DSETS 16
static struct { char name[48]; uint64_t *slots; int64_t n; } dsets[MAX_DSETS];
static int n_dsets;

void
sim_distinct (const char *name, uint64_t key)
{
    int i;
    uint64_t idx;
    for (i = 0; i < n_dsets; i++)
	if (!strcmp (dsets[i].name, name)) break;
    if (i == n_dsets)
    {
	if (n_dsets >= MAX_DSETS) return;
	snprintf (dsets[i].name, sizeof dsets[0].name, "%s", name);
	dsets[i].slots = calloc ((size_t)1 << DSET_BITS, sizeof (uint64_t));
	dsets[i].n = 0;
	n_dsets++;
    }
    if (key == 0) key = 1;
    if (dsets[i].n >= ((int64_t)1 << DSET_BITS) * 3 / 4) return;   /* saturated: stay conservative */
    idx = (key * 0x9e3779b97f4a7c15ull) >> (64 - DSET_BITS);
    for (;;)
    {
	if (dsets[i].slots[idx] == key) return;
	if (dsets[i].slots[idx] == 0) { dsets[i].slots[idx] = key; dsets[i].n++; return; }
	idx = (idx + 1) & (((uint64_t)1 << DSET_BITS) - 1);
    }
}

void
sim_violation (result_t *res, const char *property, const char *klass,
	       const char *site, const char *fmt, ...)
{
    va_list ap;
    if (res->violated) return;
    res->violated = 1;
    snprintf (res->property, sizeof res->property, "%s", property);
    snprintf (res->klass, sizeof res->klass, "%s", klass);
    snprintf (res->site, sizeof res->site, "%s", site ? site : "");
    va_start (ap, fmt);
    vsnprintf (res->detail, sizeof res->detail, fmt, ap);
    va_end (ap);
}

void
sim_log (const char *fmt, ...)
{
    va_list ap;
    if (!sim_verbose) return;
    va_start (ap, fmt);
    vfprintf (stderr, fmt, ap);
    va_end (ap);
}

/* ------------------------------------------------------------------ main */

static double
now_ms (void)
{
    struct timespec ts;
    clock_gettime (CLOCK_MONOTONIC, &ts);    /* used only to stop a batch early, never inside a run */
    return ts.tv_sec * 1e3 + ts.tv_nsec / 1e6;
}

static void
sanitize (char *s)
{
    for (; *s; s++) if (*s == '\n' || *s == '\r' || *s == '|') *s = ' ';
}

static void
print_result (uint64_t seed, result_t *r)
{
    if (r->violated)
    {
	sanitize (r->site); sanitize (r->detail);
	fprintf (sim_proto, "R %llu %016llx %016llx %d V %s %s | %s | op=%d %s\n",
		 (unsigned long long)seed, (unsigned long long)r->hash,
		 (unsigned long long)r->key, r->nontrivial,
		 r->property, r->klass, r->site, r->op_index, r->detail);
    }
    else
	fprintf (sim_proto, "R %llu %016llx %016llx %d ok\n", (unsigned long long)seed,
		 (unsigned long long)r->hash, (unsigned long long)r->key, r->nontrivial);
    fflush (sim_proto);
}

static void
print_counters (void)
{
    int i;
    sim_fault_site_stats ();
    for (i = 0; i < n_counters; i++)
	fprintf (sim_proto, "C %s %lld\n", counters[i].name, (long long)counters[i].v);
    for (i = 0; i < n_dsets; i++)
	fprintf (sim_proto, "D %s %lld\n", dsets[i].name, (long long)dsets[i].n);
    fflush (sim_proto);
}

static uint64_t
run_seed (uint64_t base, const char *world, const char *property, uint64_t idx)
{
    uint64_t x = base * 0x2545f4914f6cdd1dull + fnv_bytes (FNV_INIT, world, strlen (world));
    if (property) x ^= fnv_bytes (FNV_INIT, property, strlen (property)) << 1;
    x += idx * 0x9e3779b97f4a7c15ull;
    return sim_splitmix (&x) >> 1;      /* keep it positive in signed contexts */
}

static void
usage (const world_t *w)
{
    fprintf (stderr,
	     "usage: %s --run BASE FIRST COUNT STRIDE [--tier N] [--property P] [--deadline-ms N] [--recheck N]\n"
	     "       %s --dump SEED [--tier N] [--property P]\n"
	     "       %s --one SEED [--tier N] [--property P]\n"
	     "       %s --replay FILE [-v]\n", w->name, w->name, w->name, w->name);
    exit (2);
}

int
sim_main (int argc, char **argv, const world_t *w)
{
    const char *mode = NULL, *property = NULL, *file = NULL;
    uint64_t base = 1, first = 0, count = 1, stride = 1, one = 0;
    int tier = 0, i, recheck = 0, raw_index = 0, fresh_every = 0;
    double deadline = 0;
    int devnull;

    for (i = 1; i < argc; i++)
    {
	if (!strcmp (argv[i], "--run") && i + 4 < argc)
	{
	    mode = "run";
	    base = strtoull (argv[i + 1], NULL, 10); first = strtoull (argv[i + 2], NULL, 10);
	    count = strtoull (argv[i + 3], NULL, 10); stride = strtoull (argv[i + 4], NULL, 10);
	    i += 4;
	}
	else if (!strcmp (argv[i], "--dump") && i + 1 < argc) { mode = "dump"; one = strtoull (argv[++i], NULL, 10); }
	else if (!strcmp (argv[i], "--one") && i + 1 < argc) { mode = "one"; one = strtoull (argv[++i], NULL, 10); }
	else if (!strcmp (argv[i], "--replay") && i + 1 < argc) { mode = "replay"; file = argv[++i]; }
	else if (!strcmp (argv[i], "--tier") && i + 1 < argc) tier = atoi (argv[++i]);
	else if (!strcmp (argv[i], "--property") && i + 1 < argc) property = argv[++i];
	else if (!strcmp (argv[i], "--deadline-ms") && i + 1 < argc) deadline = now_ms () + atof (argv[++i]);
	else if (!strcmp (argv[i], "--recheck") && i + 1 < argc) recheck = atoi (argv[++i]);
	else if (!strcmp (argv[i], "--raw-index")) raw_index = 1;     /* run seed = run index: exhaustive enumerations */
	else if (!strcmp (argv[i], "--fresh-every") && i + 1 < argc) fresh_every = atoi (argv[++i]);   /* --run: a forked child per K runs */
	else if (!strcmp (argv[i], "-v")) sim_verbose = 1;
	else usage (w);
    }
    if (!mode) usage (w);
    if (strcmp (mode, "run")) fresh_every = 0;

    /* The protocol goes to a private copy of stdout; whatever pixman itself
     * prints to stdout (e.g. "pixman: Disabled ... implementation") is dropped. */
    sim_proto = fdopen (dup (1), "w");
    devnull = open ("/dev/null", O_WRONLY);
    if (devnull >= 0) { dup2 (devnull, 1); close (devnull); }

    if (w->init) w->init ();

    if (!strcmp (mode, "dump"))
    {
	scenario_t sc;
	sc_init (&sc);
	sc.seed = one;
	w->generate (one, tier, property, &sc);
	sc_print (&sc, w, property, sim_proto);
	fflush (sim_proto);
	return 0;
    }
    if (!strcmp (mode, "one") || !strcmp (mode, "replay"))
    {
	scenario_t sc;
	result_t r;
	char prop[16] = "-";
	if (!strcmp (mode, "one"))
	{
	    sc_init (&sc);
	    sc.seed = one;
	    w->generate (one, tier, property, &sc);
	}
	else
	{
	    FILE *f = fopen (file, "r");
	    if (!f) { fprintf (stderr, "pxsim: cannot open %s\n", file); return 2; }
	    if (!sc_parse (&sc, w, prop, f)) { fprintf (stderr, "pxsim: %s is not a replay file\n", file); return 2; }
	    fclose (f);
	    if (!property && strcmp (prop, "-")) property = prop;
	}
	fprintf (sim_proto, "B %llu\n", (unsigned long long)sc.seed);
	fflush (sim_proto);
	fprintf (stderr, "PXSIM-RUN %llu\n", (unsigned long long)sc.seed);
	memset (&r, 0, sizeof r);
	w->execute (&sc, property, &r);
	print_result (sc.seed, &r);
	print_counters ();
	fprintf (sim_proto, "END\n");
	fflush (sim_proto);
	if (r.violated)
	{
	    fprintf (stderr, "violation: property=%s class=%s site=%s op=%d %s\n", r.property, r.klass, r.site, r.op_index, r.detail);
	    return 1;
	}
	return 0;
    }

    /* --run */
    {
	uint64_t j, chunk_end = count;
	int any = 0, in_child = 0;
	for (j = 0; j < count; j++)
	{
	    uint64_t idx;
	    if (fresh_every > 0 && !in_child)
	    {
		/* State that lives as long as the process (lazily initialised statics, memo tables) is
		 * cold only once per process: give every K runs a process of their own.  The parent is
		 * single-threaded here (every scenario joins its threads), so fork() is safe. */
		pid_t pid;
		int status = 0;
		fflush (sim_proto); fflush (stderr);
		pid = fork ();
		if (pid < 0) { fprintf (stderr, "pxsim: fork failed\n"); return 2; }
		if (pid == 0) { in_child = 1; chunk_end = j + (uint64_t)fresh_every < count ? j + (uint64_t)fresh_every : count; }
		else
		{
		    while (waitpid (pid, &status, 0) < 0 && errno == EINTR) ;
		    if (WIFSIGNALED (status)) { signal (WTERMSIG (status), SIG_DFL); raise (WTERMSIG (status)); return 2; }
		    if (WEXITSTATUS (status) == 3) break;                                   /* deadline reached in the child */
		    if (WEXITSTATUS (status) == 1) any = 1;
		    else if (WEXITSTATUS (status) != 0 && WEXITSTATUS (status) != 66) return WEXITSTATUS (status);   /* sanitizer death etc.: the driver classifies it */
		    j += (uint64_t)fresh_every - 1;
		    continue;
		}
	    }
	    if (in_child && j >= chunk_end) break;
	    idx = first + j * stride;
	    uint64_t seed = raw_index ? idx : run_seed (base, w->name, property, idx);
	    scenario_t sc;
	    result_t r;

	    if (deadline && now_ms () > deadline)
	    {
		fprintf (sim_proto, "TRUNC %llu\n", (unsigned long long)j);
		if (in_child) { print_counters (); fflush (sim_proto); exit (3); }
		break;
	    }
	    sc_init (&sc);
	    sc.seed = seed;
	    w->generate (seed, tier, property, &sc);
	    fprintf (sim_proto, "B %llu\n", (unsigned long long)seed);
	    fflush (sim_proto);
	    fprintf (stderr, "PXSIM-RUN %llu\n", (unsigned long long)seed);
	    memset (&r, 0, sizeof r);
	    w->execute (&sc, property, &r);
	    print_result (seed, &r);
	    if (r.violated) any = 1;
	    if (recheck && (j % recheck) == 0)
	    {
		/* determinism witness: the same scenario again, same process */
		result_t r2;
		scenario_t sc2;
		sc_init (&sc2);
		sc2.seed = seed;
		w->generate (seed, tier, property, &sc2);
		memset (&r2, 0, sizeof r2);
		w->execute (&sc2, property, &r2);
		sim_count ("determinism_rechecks", 1);
		if (r2.hash != r.hash || r2.violated != r.violated)
		{
		    fprintf (sim_proto, "NONDET %llu %016llx %016llx\n", (unsigned long long)seed,
			     (unsigned long long)r.hash, (unsigned long long)r2.hash);
		    fflush (sim_proto);
		}
		sc_free (&sc2);
	    }
	    sc_free (&sc);
	}
	print_counters ();
	if (in_child) { fflush (sim_proto); exit (any ? 1 : 0); }
	fprintf (sim_proto, "END\n");
	fflush (sim_proto);
	return any ? 1 : 0;
    }
}
