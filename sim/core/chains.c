/* Configuration seam: the 32 delegation chains, each built by the library's
 * own selection code from PIXMAN_DISABLE, and the fresh-thread runner that
 * gives every execution a zeroed thread-local dispatch cache. */
#include "sim.h"
#include <pthread.h>

static pixman_implementation_t *chains[N_CHAINS];
static char chain_names[N_CHAINS][48];
static int chains_ready;

void
chains_init (void)
{
    int m;
    if (chains_ready) return;
    for (m = 0; m < N_CHAINS; m++)
    {
	char *s = chain_names[m];
	s[0] = 0;
	if (m & CHAIN_FAST) strcat (s, "fast ");
	if (m & CHAIN_MMX) strcat (s, "mmx ");
	if (m & CHAIN_SSE2) strcat (s, "sse2 ");
	if (m & CHAIN_SSSE3) strcat (s, "ssse3 ");
	if (m & CHAIN_WHOLEOPS) strcat (s, "wholeops ");
	if (s[0]) s[strlen (s) - 1] = 0;
	setenv ("PIXMAN_DISABLE", s, 1);
	chains[m] = _pixman_choose_implementation ();
	if (!chains[m]) { fprintf (stderr, "pxsim: cannot build chain '%s'\n", s); _exit (2); }
    }
    unsetenv ("PIXMAN_DISABLE");
    chains_ready = 1;
}

pixman_implementation_t *
chain_get (int mask)
{
    chains_init ();
    return chains[mask & (N_CHAINS - 1)];
}

void
chain_install (int mask)
{
    global_implementation = chain_get (mask);
}

const char *
chain_name (int mask)
{
    chains_init ();
    return chain_names[mask & (N_CHAINS - 1)][0] ? chain_names[mask & (N_CHAINS - 1)] : "(none disabled)";
}

typedef struct { void (*fn) (void *); void *arg; } thunk_t;

static void *
trampoline (void *p)
{
    thunk_t *t = p;
    t->fn (t->arg);
    return NULL;
}

void
run_on_fresh_thread (void (*fn) (void *), void *arg)
{
    pthread_t th;
    pthread_attr_t attr;
    thunk_t t = { fn, arg };
    pthread_attr_init (&attr);
    pthread_attr_setstacksize (&attr, 8u << 20);
    if (pthread_create (&th, &attr, trampoline, &t) != 0)
    {
	fprintf (stderr, "pxsim: pthread_create failed\n");
	_exit (2);
    }
    pthread_join (th, NULL);
    pthread_attr_destroy (&attr);
}
