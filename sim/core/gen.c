#include "gen.h"

void
gen_init (gen_t *g, rng_t *r, scenario_t *sc, int fault_pct, int fault_kmax)
{
    memset (g, 0, sizeof *g);
    g->r = r; g->sc = sc; g->fault_pct = fault_pct; g->fault_kmax = fault_kmax > 0 ? fault_kmax : 3;
}

#define R g->r

static int
prefix (gen_t *g, int64_t *a)
{
    if (g->fault_pct && rng_n (R, 100) < (uint32_t)g->fault_pct)
    {
	a[0] = rng_range (R, 1, g->fault_kmax);
	a[1] = rng_range (R, 1, 2);
	a[2] = rng_chance (R, 1, 6) ? rng_range (R, 1, 3) : 0;
    }
    else a[0] = a[1] = a[2] = 0;
    return 3;
}

static int
fmt_index_of (pixman_format_code_t f)
{
    int i;
    for (i = 0; i < sim_n_formats; i++) if (sim_formats[i] == f) return i;
    return 0;
}

int
gen_pick_format (gen_t *g, int fclass)
{
    static const pixman_format_code_t f32[] = { PIXMAN_a8r8g8b8, PIXMAN_x8r8g8b8, PIXMAN_a8b8g8r8, PIXMAN_x8b8g8r8 };
    static const pixman_format_code_t common[] = { PIXMAN_a8r8g8b8, PIXMAN_x8r8g8b8, PIXMAN_a8b8g8r8, PIXMAN_x8b8g8r8,
						   PIXMAN_r5g6b5, PIXMAN_b5g6r5, PIXMAN_a8, PIXMAN_a1, PIXMAN_r8g8b8,
						   PIXMAN_b8g8r8a8, PIXMAN_a1r5g5b5, PIXMAN_a4r4g4b4, PIXMAN_a4 };
    static const pixman_format_code_t alpha[] = { PIXMAN_a8, PIXMAN_a1, PIXMAN_a4, PIXMAN_a8r8g8b8 };
    static const pixman_format_code_t wide[] = { PIXMAN_a2r10g10b10, PIXMAN_x2r10g10b10, PIXMAN_a2b10g10r10, PIXMAN_rgba_float,
						 PIXMAN_rgb_float, PIXMAN_a8r8g8b8_sRGB, PIXMAN_x14r6g6b6 };
    /* every format that is named in a fast path table of fast/mmx/sse2/ssse3 */
    static const pixman_format_code_t fast[] = { PIXMAN_a8r8g8b8, PIXMAN_x8r8g8b8, PIXMAN_a8b8g8r8, PIXMAN_x8b8g8r8,
						 PIXMAN_r5g6b5, PIXMAN_b5g6r5, PIXMAN_a8, PIXMAN_a1, PIXMAN_r8g8b8, PIXMAN_b8g8r8,
						 PIXMAN_b8g8r8a8, PIXMAN_b8g8r8x8, PIXMAN_r8g8b8a8, PIXMAN_r8g8b8x8,
						 PIXMAN_a1r5g5b5, PIXMAN_x1r5g5b5, PIXMAN_a4r4g4b4, PIXMAN_r3g3b2, PIXMAN_a2r2g2b2 };
    switch (fclass)
    {
    case FC_32: return fmt_index_of (f32[rng_n (R, 4)]);
    case FC_COMMON: return fmt_index_of (common[rng_n (R, sizeof common / sizeof common[0])]);
    case FC_ALPHA: return fmt_index_of (alpha[rng_n (R, 4)]);
    case FC_WIDE: return fmt_index_of (wide[rng_n (R, sizeof wide / sizeof wide[0])]);
    case FC_FASTPATH: return fmt_index_of (fast[rng_n (R, sizeof fast / sizeof fast[0])]);
    case FC_NARROW:
    {
	int i;
	do i = rng_n (R, sim_n_formats); while (PIXMAN_FORMAT_BPP (sim_formats[i]) > 32 || sim_formats[i] == PIXMAN_a2r10g10b10 ||
					       sim_formats[i] == PIXMAN_x2r10g10b10 || sim_formats[i] == PIXMAN_a2b10g10r10 ||
					       sim_formats[i] == PIXMAN_x2b10g10r10 || sim_formats[i] == PIXMAN_a8r8g8b8_sRGB);
	return i;
    }
    default:
	switch (rng_n (R, 10))
	{
	case 0: case 1: case 2: case 3: return gen_pick_format (g, FC_FASTPATH);
	case 4: case 5: return gen_pick_format (g, FC_32);
	case 6: return gen_pick_format (g, FC_WIDE);
	default: return rng_n (R, sim_n_formats);
	}
    }
}

/* sizes cluster around multiples of the vector widths, +-1 */
int
gen_pick_size (gen_t *g, int maxdim)
{
    static const int anchors[] = { 1, 2, 3, 4, 7, 8, 9, 15, 16, 17, 31, 32, 33, 63, 64, 65, 127, 128, 129, 200 };
    int v;
    if (rng_chance (R, 1, 2)) v = anchors[rng_n (R, sizeof anchors / sizeof anchors[0])];
    else v = (int)rng_range (R, 1, maxdim);
    if (v > maxdim) v = (int)rng_range (R, 1, maxdim);
    return v;
}

void
gen_bits_exact (gen_t *g, int slot, int fmt_idx, int w, int h, int pad, int neg, int misalign, int flags)
{
    int64_t a[16];
    int n = prefix (g, a);
    a[n++] = slot; a[n++] = fmt_idx; a[n++] = w; a[n++] = h; a[n++] = pad; a[n++] = neg; a[n++] = misalign; a[n++] = flags;
    a[n++] = (int64_t)(rng_u64 (R) >> 16);
    sc_addv (g->sc, MOP_BITS, n, a);
    g->s[slot].used = 1; g->s[slot].kind = MOP_BITS; g->s[slot].w = w; g->s[slot].h = h; g->s[slot].fmt_idx = fmt_idx;
    g->s[slot].bpp = PIXMAN_FORMAT_BPP (sim_formats[fmt_idx]); g->s[slot].refs = 1; g->s[slot].has_alpha = -1; g->s[slot].alpha_of = 0;
}

void
gen_bits (gen_t *g, int slot, int fclass, int maxw, int maxh, int flags_allowed)
{
    int f = gen_pick_format (g, fclass);
    int w = gen_pick_size (g, maxw), h = rng_chance (R, 1, 4) ? 1 : (int)rng_range (R, 1, maxh);
    int pad = rng_chance (R, 1, 2) ? 0 : (int)rng_range (R, 0, 3);
    int neg = rng_chance (R, 1, 5);
    int flags = (int)rng_n (R, 16) & flags_allowed;
    if (!rng_chance (R, 1, 4)) flags &= ~1;     /* accessors on a quarter of those allowed */
    if (!rng_chance (R, 1, 5)) flags &= ~6;     /* library-owned pixels on a fifth */
    gen_bits_exact (g, slot, f, w, h, pad, neg, (int)rng_n (R, 16), flags);
}

void
gen_solid (gen_t *g, int slot)
{
    int64_t a[10];
    int n = prefix (g, a), i;
    a[n++] = slot;
    for (i = 0; i < 4; i++)
	a[n++] = rng_chance (R, 1, 4) ? 65535 : rng_chance (R, 1, 5) ? 0 : rng_range (R, 0, 65535);
    /* premultiplied more often than not */
    if (rng_chance (R, 2, 3)) for (i = 2; i < 5; i++) if (a[n - 5 + i] > a[n - 4]) a[n - 5 + i] = a[n - 4];
    sc_addv (g->sc, MOP_SOLID, n, a);
    g->s[slot].used = 1; g->s[slot].kind = MOP_SOLID; g->s[slot].w = g->s[slot].h = 1; g->s[slot].refs = 1; g->s[slot].has_alpha = -1; g->s[slot].alpha_of = 0;
}

void
gen_gradient (gen_t *g, int slot)
{
    int64_t a[SIM_MAX_ARGS];
    /* now and then a long stop list (colour maps): code that treats those differently */
    int n = prefix (g, a), kind = MOP_LINEAR + (int)rng_n (R, 3), ns = rng_chance (R, 1, 6) ? (int)rng_range (R, 7, 16) : (int)rng_range (R, 1, 5), i;
    int64_t pos = 0;
    a[n++] = slot;
    if (kind == MOP_LINEAR) { for (i = 0; i < 4; i++) a[n++] = rng_range (R, -40, 140) * 65536 + (rng_chance (R, 1, 2) ? 0 : rng_range (R, 0, 65535)); }
    else if (kind == MOP_RADIAL)
    {
	for (i = 0; i < 4; i++) a[n++] = rng_range (R, -20, 120) * 65536;
	a[n++] = rng_range (R, 0, 60) * 65536; a[n++] = rng_range (R, 0, 90) * 65536;
    }
    else { a[n++] = rng_range (R, -20, 120) * 65536; a[n++] = rng_range (R, -20, 120) * 65536; a[n++] = rng_range (R, 0, 360) * 65536; }
    a[n++] = ns;
    for (i = 0; i < ns; i++)
    {
	pos += rng_range (R, 0, 65536 / ns);
	if (i == 0 && rng_chance (R, 1, 2)) pos = 0;
	if (i == ns - 1 && rng_chance (R, 1, 2)) pos = 65536;
	a[n++] = pos;
	a[n++] = rng_chance (R, 1, 2) ? 65535 : rng_range (R, 0, 65535);
	a[n++] = rng_range (R, 0, 65535); a[n++] = rng_range (R, 0, 65535); a[n++] = rng_range (R, 0, 65535);
    }
    sc_addv (g->sc, kind, n, a);
    g->s[slot].used = 1; g->s[slot].kind = kind; g->s[slot].w = g->s[slot].h = 100; g->s[slot].refs = 1; g->s[slot].has_alpha = -1; g->s[slot].alpha_of = 0;
}

/* a yuy2 or yv12 source: read-only by nature (pixman cannot store these formats) */
void
gen_yuv (gen_t *g, int slot)
{
    int64_t a[12];
    int n = prefix (g, a), planar = (int)rng_n (R, 2), w = (int)rng_range (R, 1, 24), h = (int)rng_range (R, 1, 10);
    a[n++] = slot; a[n++] = planar; a[n++] = w; a[n++] = h; a[n++] = rng_chance (R, 1, 2) ? 0 : rng_n (R, 4); a[n++] = rng_n (R, 16);
    a[n++] = rng_n (R, 16); a[n++] = (int64_t)(rng_u64 (R) >> 16);
    sc_addv (g->sc, MOP_BITS_YUV, n, a);
    g->s[slot].used = 1; g->s[slot].kind = MOP_BITS; g->s[slot].w = 2 * w; g->s[slot].h = 2 * h; g->s[slot].fmt_idx = 0;
    g->s[slot].bpp = planar ? 12 : 16; g->s[slot].refs = 1; g->s[slot].has_alpha = -1; g->s[slot].alpha_of = 0;
}

void
gen_source (gen_t *g, int slot, int fclass, int maxdim)
{
    if (fclass == FC_ANY && rng_chance (R, 1, 24)) { gen_yuv (g, slot); return; }
    switch (rng_n (R, 10))
    {
    case 0: gen_solid (g, slot); break;
    case 1: gen_gradient (g, slot); break;
    case 2: gen_bits_exact (g, slot, gen_pick_format (g, fclass), 1, 1, 0, 0, 0, 0); break;   /* 1x1, typically made repeating */
    default: gen_bits (g, slot, fclass, maxdim, maxdim, 0xf); break;
    }
}

void
gen_unref (gen_t *g, int slot)
{
    int64_t a[6];
    int n = prefix (g, a);
    a[n++] = slot;
    sc_addv (g->sc, MOP_UNREF, n, a);
    if (g->s[slot].used && g->s[slot].refs > 0)
    {
	g->s[slot].refs--;
	if (g->s[slot].refs == 0 && g->s[slot].alpha_of == 0)
	{
	    if (g->s[slot].has_alpha >= 0) g->s[g->s[slot].has_alpha].alpha_of--;
	    g->s[slot].used = 0;
	}
    }
}

void
gen_ref (gen_t *g, int slot)
{
    int64_t a[6];
    int n = prefix (g, a);
    a[n++] = slot;
    sc_addv (g->sc, MOP_REF, n, a);
    if (g->s[slot].used && g->s[slot].refs > 0) g->s[slot].refs++;
}

void
gen_transform (gen_t *g, int slot, int tclass)
{
    int64_t a[16];
    int n = prefix (g, a), i;
    int64_t m[9] = { 65536, 0, 0, 0, 65536, 0, 0, 0, 65536 };
    a[n++] = slot;
    if (tclass == TC_ANY)
    {
	static const int w[] = { TC_NULL, TC_TRANSLATE, TC_TRANSLATE, TC_SCALE, TC_SCALE, TC_SCALE, TC_ROT90, TC_AFFINE, TC_AFFINE, TC_PROJECTIVE };
	tclass = w[rng_n (R, 10)];
    }
    a[n++] = tclass == TC_NULL;
    switch (tclass)
    {
    case TC_TRANSLATE:
	m[2] = rng_range (R, -20, 20) * 65536; m[5] = rng_range (R, -20, 20) * 65536;
	if (rng_chance (R, 1, 3)) { m[2] += rng_range (R, 0, 65535); m[5] += rng_range (R, 0, 65535); }
	break;
    case TC_SCALE:
	m[0] = rng_chance (R, 1, 3) ? 65536 : rng_range (R, 8192, 4 * 65536);
	m[4] = rng_chance (R, 1, 3) ? 65536 : rng_range (R, 8192, 4 * 65536);
	if (rng_chance (R, 1, 6)) m[0] = -m[0];
	if (rng_chance (R, 1, 6)) m[4] = -m[4];
	m[2] = rng_range (R, -10 * 65536, 30 * 65536); m[5] = rng_range (R, -10 * 65536, 30 * 65536);
	break;
    case TC_ROT90:
    {
	static const int c[4] = { 1, 0, -1, 0 }, s[4] = { 0, 1, 0, -1 };
	int q = (int)rng_n (R, 4);
	m[0] = c[q] * 65536; m[1] = -s[q] * 65536; m[3] = s[q] * 65536; m[4] = c[q] * 65536;
	m[2] = rng_range (R, -5, 60) * 65536; m[5] = rng_range (R, -5, 60) * 65536;
	break;
    }
    case TC_AFFINE:
	m[0] = rng_range (R, -2 * 65536, 2 * 65536); m[1] = rng_range (R, -2 * 65536, 2 * 65536);
	m[3] = rng_range (R, -2 * 65536, 2 * 65536); m[4] = rng_range (R, -2 * 65536, 2 * 65536);
	m[2] = rng_range (R, -20 * 65536, 60 * 65536); m[5] = rng_range (R, -20 * 65536, 60 * 65536);
	break;
    case TC_PROJECTIVE:
	m[0] = rng_range (R, -2 * 65536, 2 * 65536); m[1] = rng_range (R, -65536, 65536);
	m[3] = rng_range (R, -65536, 65536); m[4] = rng_range (R, -2 * 65536, 2 * 65536);
	m[2] = rng_range (R, -20 * 65536, 60 * 65536); m[5] = rng_range (R, -20 * 65536, 60 * 65536);
	m[6] = rng_range (R, -600, 600); m[7] = rng_range (R, -600, 600);
	m[8] = rng_chance (R, 1, 2) ? 65536 : rng_range (R, 32768, 3 * 65536);
	/* sparse bottom rows are projective too: (0,0,w), (0,p,1), (p,0,1) */
	switch (rng_n (R, 6))
	{
	case 0: m[6] = m[7] = 0; if (m[8] == 65536) m[8] = 2 * 65536; break;
	case 1: m[6] = 0; m[8] = 65536; if (!m[7]) m[7] = 150; break;
	case 2: m[7] = 0; m[8] = 65536; if (!m[6]) m[6] = -150; break;
	default: break;
	}
	break;
    default: break;
    }
    for (i = 0; i < 9; i++) a[n++] = m[i];
    sc_addv (g->sc, MOP_SET_TRANSFORM, n, a);
}

void
gen_filter (gen_t *g, int slot, int allow_convolution)
{
    int64_t a[64];
    int n = prefix (g, a), f, cw, ch, xb, yb, cnt, i;
    static const int plain[] = { PIXMAN_FILTER_NEAREST, PIXMAN_FILTER_BILINEAR, PIXMAN_FILTER_FAST, PIXMAN_FILTER_GOOD, PIXMAN_FILTER_BEST,
				 PIXMAN_FILTER_NEAREST, PIXMAN_FILTER_BILINEAR, PIXMAN_FILTER_BILINEAR };
    a[n++] = slot;
    if (allow_convolution == 2) f = PIXMAN_FILTER_SEPARABLE_CONVOLUTION;       /* asked for by name */
    else if (allow_convolution && rng_chance (R, 1, 4)) f = rng_chance (R, 1, 2) ? PIXMAN_FILTER_CONVOLUTION : PIXMAN_FILTER_SEPARABLE_CONVOLUTION;
    else f = plain[rng_n (R, 8)];
    cw = (int)rng_range (R, 1, 4); ch = (int)rng_range (R, 1, 4); xb = (int)rng_n (R, 3); yb = (int)rng_n (R, 3);
    a[n++] = f; a[n++] = cw; a[n++] = ch; a[n++] = xb; a[n++] = yb;
    cnt = f == PIXMAN_FILTER_CONVOLUTION ? cw * ch : f == PIXMAN_FILTER_SEPARABLE_CONVOLUTION ? (1 << xb) * cw + (1 << yb) * ch : 0;
    for (i = 0; i < cnt; i++) a[n++] = rng_range (R, 0, 65536 / (f == PIXMAN_FILTER_CONVOLUTION ? cw * ch : (i < (1 << xb) * cw ? cw : ch)));
    if (cnt && rng_chance (R, 1, 3))
    {
	/* one dominant tap per phase (weights close to 1): products of two such weights
	 * are where 32-bit intermediate arithmetic would overflow */
	int per = f == PIXMAN_FILTER_CONVOLUTION ? cw * ch : 0, q;
	if (per) { for (q = 0; q < cnt; q++) a[n - cnt + q] = 0; a[n - cnt + rng_n (R, cnt)] = 65536 - rng_range (R, 0, 3000); }
	else
	{
	    int nx = (1 << xb) * cw, ny = (1 << yb) * ch, ph;
	    for (q = 0; q < cnt; q++) a[n - cnt + q] = rng_range (R, 0, 2000);
	    for (ph = 0; ph < (1 << xb); ph++) a[n - cnt + ph * cw + rng_n (R, cw)] = 65536 - rng_range (R, 0, 6000);
	    for (ph = 0; ph < (1 << yb); ph++) a[n - cnt + nx + ph * ch + rng_n (R, ch)] = 65536 - rng_range (R, 0, 6000);
	    (void)ny;
	}
    }
    sc_addv (g->sc, MOP_SET_FILTER, n, a);
}

void
gen_repeat (gen_t *g, int slot)
{
    int64_t a[6];
    int n = prefix (g, a);
    a[n++] = slot; a[n++] = rng_n (R, 4);
    sc_addv (g->sc, MOP_SET_REPEAT, n, a);
}

void
gen_clip (gen_t *g, int slot, int maybe_null)
{
    int64_t a[96];
    int n = prefix (g, a), cnt, i;
    int w = g->s[slot].w > 0 ? g->s[slot].w : 10, h = g->s[slot].h > 0 ? g->s[slot].h : 10;
    a[n++] = slot;
    if (maybe_null && rng_chance (R, 1, 3)) cnt = -1;
    else if (rng_chance (R, 1, 5)) cnt = (int)rng_range (R, 17, 20);     /* more boxes than the 16<->32 conversion keeps on its stack */
    else cnt = (int)rng_range (R, 0, 4);
    a[n++] = cnt;
    for (i = 0; i < cnt; i++)
    {
	int64_t x1 = rng_range (R, -3, w), y1 = rng_range (R, -3, h);
	a[n++] = x1; a[n++] = y1; a[n++] = x1 + rng_range (R, 1, w + 3); a[n++] = y1 + rng_range (R, 1, h + 3);
    }
    {
	int k16 = rng_chance (R, 1, 3);
	/* the 16-bit entry point converts through a temporary array once there are more than
	 * 16 rectangles: where faults are being injected at all, aim one at that call */
	if (k16 && cnt > 16 && g->fault_pct && rng_chance (R, 1, 2)) { a[0] = rng_range (R, 1, 2); a[1] = 1; a[2] = 0; }
	sc_addv (g->sc, k16 ? MOP_SET_CLIP16 : MOP_SET_CLIP32, n, a);
    }
}

void
gen_misc_prop (gen_t *g, int slot)
{
    int64_t a[8];
    int n = prefix (g, a), kind;
    static const int kinds[] = { MOP_SET_CLIENT_CLIP, MOP_SET_SOURCE_CLIPPING, MOP_SET_COMPONENT_ALPHA, MOP_SET_COMPONENT_ALPHA,
				 MOP_SET_DITHER, MOP_SET_DITHER_OFFSET, MOP_SET_INDEXED, MOP_SET_ACCESSORS };
    kind = kinds[rng_n (R, 8)];
    a[n++] = slot;
    if (kind == MOP_SET_DITHER) a[n++] = rng_n (R, 6);
    else if (kind == MOP_SET_DITHER_OFFSET) { a[n++] = rng_range (R, -9, 9); a[n++] = rng_range (R, -9, 9); }
    else if (kind == MOP_SET_INDEXED) a[n++] = rng_n (R, 3);
    else if (kind == MOP_SET_ACCESSORS) a[n++] = rng_n (R, 4);      /* none / both / read-only / both */
    else a[n++] = rng_n (R, 4);                                     /* FALSE, TRUE, and two other ways of saying true */
    sc_addv (g->sc, kind, n, a);
}

void
gen_alpha_map (gen_t *g, int slot, int map)
{
    int64_t a[8];
    int n = prefix (g, a);
    a[n++] = slot; a[n++] = map; a[n++] = rng_range (R, -4, 4); a[n++] = rng_range (R, -4, 4);
    sc_addv (g->sc, MOP_SET_ALPHA_MAP, n, a);
    /* mirror of the API's refusal rules, so the generator's picture stays right */
    if (!g->s[slot].used || g->s[slot].refs <= 0) return;
    if (map >= 0)
    {
	if (!g->s[map].used || g->s[map].kind != MOP_BITS) return;
	if (g->s[map].refs <= 0 && g->s[slot].has_alpha != map) return;
	if (g->s[slot].alpha_of > 0 || g->s[map].has_alpha >= 0 || map == slot) return;
    }
    if (g->s[slot].has_alpha != map)
    {
	int old = g->s[slot].has_alpha;
	if (map >= 0) g->s[map].alpha_of++;
	g->s[slot].has_alpha = map;
	if (old >= 0)
	{
	    g->s[old].alpha_of--;
	    if (g->s[old].refs == 0 && g->s[old].alpha_of == 0) g->s[old].used = 0;
	}
    }
}

void
gen_destroy_cb (gen_t *g, int slot)
{
    int64_t a[6];
    int n = prefix (g, a);
    a[n++] = slot; a[n++] = rng_n (R, 3);
    sc_addv (g->sc, MOP_SET_DESTROY, n, a);
}

/* op_class: 0 any of the 53, 1 weighted towards operators with fast paths */
void
gen_composite (gen_t *g, int op_class, int src, int mask, int dst)
{
    int64_t a[20];
    int n = prefix (g, a), op;
    static const int hot[] = { 1, 3, 3, 3, 12, 12, 4, 5, 6, 8, 1, 3, 0, 7, 9, 11 };   /* SRC OVER ADD OVER_REVERSE IN IN_REVERSE OUT_REVERSE ... */
    int dw = g->s[dst].w, dh = g->s[dst].h, sw = g->s[src].w, sh = g->s[src].h;
    int w, h;
    if (op_class == 1 && rng_chance (R, 3, 4)) op = hot[rng_n (R, sizeof hot / sizeof hot[0])];
    else op = (int)rng_n (R, sim_n_ops);
    a[n++] = op; a[n++] = src; a[n++] = mask; a[n++] = dst;
    /* src x,y ; mask x,y ; dst x,y */
    a[n++] = rng_chance (R, 1, 2) ? 0 : rng_range (R, -3, sw); a[n++] = rng_chance (R, 1, 2) ? 0 : rng_range (R, -3, sh);
    a[n++] = rng_chance (R, 1, 2) ? 0 : rng_range (R, -3, 10); a[n++] = rng_chance (R, 1, 2) ? 0 : rng_range (R, -3, 10);
    a[n++] = rng_chance (R, 1, 2) ? 0 : rng_range (R, -3, dw); a[n++] = rng_chance (R, 1, 2) ? 0 : rng_range (R, -3, dh);
    w = rng_chance (R, 1, 2) ? dw : (int)rng_range (R, 0, dw + 4);
    h = rng_chance (R, 1, 2) ? dh : (int)rng_range (R, 0, dh + 4);
    a[n++] = w; a[n++] = h;
    sc_addv (g->sc, MOP_COMPOSITE, n, a);
}

void
gen_fill_boxes (gen_t *g, int dst, int rects, int inside_only)
{
    int64_t a[96];
    int n = prefix (g, a), cnt = rng_chance (R, 1, 4) ? (int)rng_range (R, 7, 20) : (int)rng_range (R, 0, 6), i;
    int dw = g->s[dst].w, dh = g->s[dst].h;
    a[n++] = rng_chance (R, 1, 2) ? (rng_chance (R, 1, 2) ? 1 : 3) : (int64_t)rng_n (R, sim_n_ops);
    a[n++] = dst;
    {
	/* 16-bit channel values around the places where 8-bit and 16-bit views of a colour part ways */
	static const int64_t edge[] = { 65535, 65535, 65535, 0, 0xff00, 0xfffe, 0xff7f, 0xff80, 0x00ff, 0x0100, 0x8000, 0x7fff };
	int q;
	for (q = 0; q < 4; q++)
	    a[n++] = rng_chance (R, 2, 3) ? edge[rng_n (R, sizeof edge / sizeof edge[0])] : rng_range (R, 0, 65535);
    }
    a[n++] = cnt;
    for (i = 0; i < cnt; i++)
    {
	int64_t x1, y1, x2, y2;
	if (inside_only)
	{
	    x1 = rng_range (R, 0, dw); y1 = rng_range (R, 0, dh);
	    x2 = rng_range (R, x1, dw); y2 = rng_range (R, y1, dh);
	}
	else
	{
	    x1 = rng_range (R, -4, dw + 2); y1 = rng_range (R, -4, dh + 2);
	    x2 = x1 + rng_range (R, 0, dw + 6); y2 = y1 + rng_range (R, 0, dh + 6);
	}
	if (rects) { a[n++] = x1; a[n++] = y1; a[n++] = x2 - x1; a[n++] = y2 - y1; }
	else { a[n++] = x1; a[n++] = y1; a[n++] = x2; a[n++] = y2; }
    }
    sc_addv (g->sc, rects ? MOP_FILL_RECTS : MOP_FILL_BOXES, n, a);
}

void
gen_fill (gen_t *g, int dst)
{
    int64_t a[12];
    int n = prefix (g, a);
    int dw = g->s[dst].w, dh = g->s[dst].h;
    int64_t x = rng_range (R, 0, dw), y = rng_range (R, 0, dh);
    a[n++] = dst; a[n++] = x; a[n++] = y;
    a[n++] = rng_chance (R, 1, 3) ? dw - x : rng_range (R, 0, dw - x);
    a[n++] = rng_chance (R, 1, 3) ? dh - y : rng_range (R, 0, dh - y);
    a[n++] = (int64_t)(rng_u64 (R) & 0xffffffffu);
    sc_addv (g->sc, MOP_FILL, n, a);
}

void
gen_blt (gen_t *g, int src, int dst)
{
    int64_t a[14];
    int n = prefix (g, a);
    int w = g->s[src].w < g->s[dst].w ? g->s[src].w : g->s[dst].w, h = g->s[src].h < g->s[dst].h ? g->s[src].h : g->s[dst].h;
    a[n++] = src; a[n++] = dst;
    a[n++] = rng_range (R, 0, g->s[src].w); a[n++] = rng_range (R, 0, g->s[src].h);
    a[n++] = rng_range (R, 0, g->s[dst].w); a[n++] = rng_range (R, 0, g->s[dst].h);
    a[n++] = rng_range (R, 0, w); a[n++] = rng_range (R, 0, h);
    sc_addv (g->sc, MOP_BLT, n, a);
}

static void
put_trapezoid (gen_t *g, int64_t *a, int *pn, int w, int h)
{
    int n = *pn;
    int64_t top = rng_range (R, -4 * 65536, (int64_t)h * 65536), bottom = top + rng_range (R, 1, (int64_t)(h + 8) * 65536);
    int64_t lx1 = rng_range (R, -8 * 65536, (int64_t)w * 65536), lx2 = lx1 + rng_range (R, -6 * 65536, 6 * 65536);
    int64_t rx1 = lx1 + rng_range (R, 0, (int64_t)(w + 4) * 65536), rx2 = lx2 + rng_range (R, 0, (int64_t)(w + 4) * 65536);
    if (rng_chance (R, 1, 12)) { lx1 = -32767ll * 65536; }
    if (rng_chance (R, 1, 12)) { rx2 = 32767ll * 65536 + 65535; }
    a[n++] = top; a[n++] = bottom;
    a[n++] = lx1; a[n++] = top - rng_range (R, 0, 3 * 65536); a[n++] = lx2; a[n++] = bottom + rng_range (R, 0, 3 * 65536);
    a[n++] = rx1; a[n++] = top - rng_range (R, 0, 3 * 65536); a[n++] = rx2; a[n++] = bottom + rng_range (R, 0, 3 * 65536);
    *pn = n;
}

void
gen_traps (gen_t *g, int kind, int src, int dst)
{
    int64_t a[96];
    int n = prefix (g, a), cnt, i;
    int w = g->s[dst].w, h = g->s[dst].h;
    switch (kind)
    {
    case MOP_ADD_TRAPS:
	cnt = (int)rng_range (R, 1, 6);
	a[n++] = dst; a[n++] = rng_range (R, -3, 3); a[n++] = rng_range (R, -3, 3); a[n++] = cnt;
	for (i = 0; i < cnt; i++)
	{
	    int64_t y1 = rng_range (R, -2 * 65536, (int64_t)h * 65536), y2 = y1 + rng_range (R, 0, (int64_t)(h + 2) * 65536);
	    int64_t l1 = rng_range (R, -2 * 65536, (int64_t)w * 65536), r1 = l1 + rng_range (R, 0, (int64_t)(w + 2) * 65536);
	    a[n++] = l1; a[n++] = r1; a[n++] = y1;
	    a[n++] = l1 + rng_range (R, -3 * 65536, 3 * 65536); a[n++] = r1 + rng_range (R, -3 * 65536, 3 * 65536); a[n++] = y2;
	}
	break;
    case MOP_ADD_TRAPEZOIDS:
	cnt = (int)rng_range (R, 1, 5);
	a[n++] = dst; a[n++] = rng_range (R, -3, 3); a[n++] = rng_range (R, -3, 3); a[n++] = cnt;
	for (i = 0; i < cnt; i++) put_trapezoid (g, a, &n, w, h);
	break;
    case MOP_RASTERIZE_TRAP:
	a[n++] = dst; a[n++] = rng_range (R, -3, 3); a[n++] = rng_range (R, -3, 3);
	put_trapezoid (g, a, &n, w, h);
	break;
    case MOP_COMPOSITE_TRAPS:
	cnt = (int)rng_range (R, 1, 5);
	a[n++] = rng_chance (R, 1, 2) ? (rng_chance (R, 1, 2) ? 3 : 12) : (int64_t)rng_n (R, sim_n_ops);
	a[n++] = src; a[n++] = dst; a[n++] = rng_n (R, 3);
	a[n++] = rng_range (R, -3, 3); a[n++] = rng_range (R, -3, 3); a[n++] = rng_range (R, -3, 3); a[n++] = rng_range (R, -3, 3);
	a[n++] = cnt;
	for (i = 0; i < cnt; i++) put_trapezoid (g, a, &n, w, h);
	break;
    case MOP_COMPOSITE_TRIS:
    case MOP_ADD_TRIS:
	cnt = (int)rng_range (R, 1, 5);
	if (kind == MOP_COMPOSITE_TRIS)
	{
	    a[n++] = rng_chance (R, 1, 2) ? 3 : (int64_t)rng_n (R, sim_n_ops);
	    a[n++] = src; a[n++] = dst; a[n++] = rng_n (R, 3);
	    a[n++] = rng_range (R, -3, 3); a[n++] = rng_range (R, -3, 3); a[n++] = rng_range (R, -3, 3); a[n++] = rng_range (R, -3, 3);
	}
	else { a[n++] = dst; a[n++] = rng_range (R, -3, 3); a[n++] = rng_range (R, -3, 3); }
	a[n++] = cnt;
	for (i = 0; i < 6 * cnt; i++) a[n++] = rng_range (R, -4 * 65536, (int64_t)((i & 1 ? h : w) + 4) * 65536);
	break;
    }
    sc_addv (g->sc, kind, n, a);
}

void
gen_glyph_op (gen_t *g, int kind, int c, int x, int y)
{
    int64_t a[12];
    int n = prefix (g, a);
    a[n++] = c;
    switch (kind)
    {
    case MOP_GC_CREATE: g->gc_exists[c] = 1; g->gc_frozen[c] = 0; g->gc_nkeys[c] = 0; break;
    case MOP_GC_DESTROY: g->gc_exists[c] = 0; break;
    case MOP_GC_FREEZE: if (g->gc_frozen[c] < 4) g->gc_frozen[c]++; break;
    case MOP_GC_THAW: if (g->gc_frozen[c] > 0) g->gc_frozen[c]--; break;
    case MOP_GC_INSERT:
    {
	int fk = (int)rng_n (R, 4), gk = (int)rng_n (R, 12);
	a[n++] = fk; a[n++] = gk; a[n++] = rng_range (R, -3, 6); a[n++] = rng_range (R, -3, 6); a[n++] = x;
	if (g->gc_nkeys[c] < 16) { g->gc_keys[c][g->gc_nkeys[c]][0] = fk; g->gc_keys[c][g->gc_nkeys[c]][1] = gk; g->gc_nkeys[c]++; }
	break;
    }
    case MOP_GC_REMOVE:
	if (g->gc_nkeys[c] && rng_chance (R, 3, 4))
	{
	    int k = (int)rng_n (R, g->gc_nkeys[c]);
	    a[n++] = g->gc_keys[c][k][0]; a[n++] = g->gc_keys[c][k][1];
	}
	else { a[n++] = rng_n (R, 4); a[n++] = rng_n (R, 12); }
	break;
    }
    (void)y;
    sc_addv (g->sc, kind, n, a);
}

void
gen_glyphs (gen_t *g, int c, int src, int dst)
{
    int64_t a[80];
    int n = prefix (g, a), cnt = (int)rng_range (R, 1, 8), i;
    int dw = g->s[dst].w, dh = g->s[dst].h;
    a[n++] = rng_chance (R, 1, 2) ? (rng_chance (R, 1, 2) ? 3 : 12) : (int64_t)rng_n (R, sim_n_ops);
    a[n++] = src; a[n++] = dst; a[n++] = rng_n (R, 2); a[n++] = rng_chance (R, 2, 3) ? rng_n (R, 4) : rng_n (R, 10);
    a[n++] = rng_range (R, -2, 5); a[n++] = rng_range (R, -2, 5);            /* src x,y */
    a[n++] = rng_range (R, -2, 5); a[n++] = rng_range (R, -2, 5);            /* mask x,y */
    a[n++] = rng_range (R, -2, 5); a[n++] = rng_range (R, -2, 5);            /* dest x,y */
    a[n++] = rng_range (R, 0, dw + 2); a[n++] = rng_range (R, 0, dh + 2);    /* width,height */
    a[n++] = c; a[n++] = cnt;
    for (i = 0; i < cnt; i++)
    {
	a[n++] = rng_range (R, -4, dw + 2); a[n++] = rng_range (R, -4, dh + 2);
	if (g->gc_nkeys[c] && rng_chance (R, 5, 6))
	{
	    int k = (int)rng_n (R, g->gc_nkeys[c]);
	    a[n++] = g->gc_keys[c][k][0]; a[n++] = g->gc_keys[c][k][1];
	}
	else { a[n++] = rng_n (R, 4); a[n++] = rng_n (R, 12); }
    }
    sc_addv (g->sc, MOP_GLYPHS, n, a);
}

void
gen_region_op (gen_t *g)
{
    int64_t a[96];
    int n = prefix (g, a), kind, i, cnt;
    static const int kinds[] = { MOP_R_INIT_RECTS, MOP_R_INIT_RECTS, MOP_R_BINOP, MOP_R_BINOP, MOP_R_BINOP, MOP_R_RECTOP, MOP_R_COPY,
				 MOP_R_INVERSE, MOP_R_CONV, MOP_R_FINI };
    kind = kinds[rng_n (R, 10)];
    if (rng_chance (R, 1, 12))
    {
	/* a region from a bitmap: needs an a1 image, made on the spot if a slot is free */
	int slot = -1, fa1 = -1;
	for (i = 0; i < sim_n_formats; i++) if (sim_formats[i] == PIXMAN_a1) fa1 = i;
	for (i = 0; i < M_NIMG; i++)
	    if (g->s[i].used && g->s[i].refs > 0 && g->s[i].kind == MOP_BITS && g->s[i].bpp == 1 && g->s[i].fmt_idx == fa1) slot = i;
	if (slot < 0 && fa1 >= 0 && (slot = gen_free_slot (g)) >= 0)
	    gen_bits_exact (g, slot, fa1, (int)rng_range (R, 1, 70), (int)rng_range (R, 1, 10), (int)rng_n (R, 2), 0, (int)rng_n (R, 16), 8 * (int)rng_n (R, 2));
	if (slot >= 0)
	{
	    n = prefix (g, a);
	    a[n++] = rng_n (R, 2); a[n++] = rng_n (R, M_NREG); a[n++] = slot;
	    sc_addv (g->sc, MOP_R_FROM_IMAGE, n, a);
	    return;
	}
    }
    a[n++] = rng_n (R, 2);
    switch (kind)
    {
    case MOP_R_INIT_RECTS:
	if (rng_chance (R, 1, 8))
	{
	    /* enough boxes to make validate() grow its tables */
	    a[n++] = rng_n (R, M_NREG); a[n++] = rng_range (R, 60, 300); a[n++] = rng_n (R, 3); a[n++] = (int64_t)(rng_u64 (R) >> 24);
	    break;
	}
	cnt = rng_chance (R, 1, 5) ? (int)rng_range (R, 17, 20) : (int)rng_range (R, 0, 12);
	a[n++] = rng_n (R, M_NREG); a[n++] = cnt;
	for (i = 0; i < cnt; i++)
	{
	    int64_t x = rng_range (R, 0, 60), y = rng_range (R, 0, 60);
	    a[n++] = x; a[n++] = y; a[n++] = x + rng_range (R, 0, 20); a[n++] = y + rng_range (R, 0, 20);
	}
	break;
    case MOP_R_BINOP:
	a[n++] = rng_n (R, 3); a[n++] = rng_n (R, M_NREG); a[n++] = rng_n (R, M_NREG); a[n++] = rng_n (R, M_NREG);
	break;
    case MOP_R_RECTOP:
	a[n++] = rng_n (R, 2); a[n++] = rng_n (R, M_NREG); a[n++] = rng_n (R, M_NREG);
	a[n++] = rng_range (R, 0, 60); a[n++] = rng_range (R, 0, 60); a[n++] = rng_range (R, 0, 30); a[n++] = rng_range (R, 0, 30);
	break;
    case MOP_R_COPY: case MOP_R_CONV:
	a[n++] = rng_n (R, M_NREG); a[n++] = rng_n (R, M_NREG);
	break;
    case MOP_R_INVERSE:
	a[n++] = rng_n (R, M_NREG); a[n++] = rng_n (R, M_NREG);
	a[n++] = rng_range (R, 0, 40); a[n++] = rng_range (R, 0, 40); a[n++] = rng_range (R, 1, 60); a[n++] = rng_range (R, 1, 60);
	break;
    case MOP_R_FINI:
	a[n++] = rng_n (R, M_NREG);
	break;
    }
    sc_addv (g->sc, kind, n, a);
}

void
gen_misc_alloc_op (gen_t *g, int kind, int src, int mask, int dst)
{
    int64_t a[20];
    int n = prefix (g, a), i;
    if (kind == MOP_FILTER_CREATE)
    {
	for (i = 0; i < 4; i++) a[n++] = rng_n (R, 8);
	a[n++] = rng_range (R, 16384, 3 * 65536); a[n++] = rng_range (R, 16384, 3 * 65536);
	a[n++] = rng_n (R, 3); a[n++] = rng_n (R, 3);
    }
    else
    {
	a[n++] = src; a[n++] = mask; a[n++] = dst;
	for (i = 0; i < 6; i++) a[n++] = rng_range (R, -5, 20);
	a[n++] = rng_range (R, 0, 60); a[n++] = rng_range (R, 0, 60);
    }
    sc_addv (g->sc, kind, n, a);
}

int
gen_find (gen_t *g, int want_bits, int want_used)
{
    int cand[M_NIMG], nc = 0, i;
    for (i = 0; i < M_NIMG; i++)
    {
	int ok = g->s[i].used && g->s[i].refs > 0;
	if (want_used ? !ok : g->s[i].used) continue;
	if (want_used && want_bits && g->s[i].kind != MOP_BITS) continue;
	cand[nc++] = i;
    }
    return nc ? cand[rng_n (R, nc)] : -1;
}

int
gen_free_slot (gen_t *g)
{
    return gen_find (g, 0, 0);
}

/* a bilinear-filtered, purely scaled source whose samples all lie inside it
 * (the COVER iterators of fast / ssse3), drawn with an operator that has no
 * whole-operation fast path so that the iterator (and its allocation) is used */
void
gen_cover_bilinear (gen_t *g, int src, int dst)
{
    int64_t a[16], f[9], rp[5], c[16];
    int n = prefix (g, a);
    int sw = g->s[src].w, sh = g->s[src].h;
    static const int ops[] = { 5, 7, 12, 11, 9, 2 };
    if (sw < 4 || sh < 3) return;
    a[n++] = src; a[n++] = 0;
    a[n++] = rng_range (R, 20000, 60000); a[n++] = 0; a[n++] = 65536 + rng_range (R, 0, 30000);
    a[n++] = 0; a[n++] = rng_chance (R, 1, 2) ? 65536 : rng_range (R, 20000, 60000); a[n++] = 65536 + rng_range (R, 0, 30000);
    a[n++] = 0; a[n++] = 0; a[n++] = 65536;
    sc_addv (g->sc, MOP_SET_TRANSFORM, n, a);
    n = prefix (g, f); f[n++] = src; f[n++] = PIXMAN_FILTER_BILINEAR; f[n++] = 1; f[n++] = 1; f[n++] = 0; f[n++] = 0;
    sc_addv (g->sc, MOP_SET_FILTER, n, f);
    n = prefix (g, rp); rp[n++] = src; rp[n++] = rng_chance (R, 1, 2) ? 0 : 2;
    sc_addv (g->sc, MOP_SET_REPEAT, n, rp);
    n = prefix (g, c);
    c[n++] = ops[rng_n (R, 6)]; c[n++] = src; c[n++] = -1; c[n++] = dst;
    c[n++] = 0; c[n++] = 0; c[n++] = 0; c[n++] = 0; c[n++] = 0; c[n++] = 0;
    c[n++] = rng_range (R, 1, sw - 2); c[n++] = rng_range (R, 1, sh - 2);
    sc_addv (g->sc, MOP_COMPOSITE, n, c);
}

/* slot := alias image of format fmt_idx over the pixels of bits image `other` */
void
gen_alias (gen_t *g, int slot, int other, int fmt_idx)
{
    int64_t a[8];
    int n = prefix (g, a);
    a[n++] = slot; a[n++] = other; a[n++] = fmt_idx;
    sc_addv (g->sc, MOP_ALIAS, n, a);
    g->s[slot] = g->s[other];
    g->s[slot].fmt_idx = fmt_idx; g->s[slot].refs = 1; g->s[slot].has_alpha = -1; g->s[slot].alpha_of = 0;
}
