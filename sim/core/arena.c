/* Storage seam: every pixel buffer pixman sees comes from here, so that the
 * only address property the SIMD head/tail loops branch on (alignment) is a
 * function of the seed, and so that a stray access just outside the storage
 * the caller described is caught:
 *   - guarded buffers sit flush against a PROT_NONE page at one end,
 *   - the slack (< 64 bytes + alignment) on the other side holds canary bytes
 *     that are checked after every op and, under ASan, poisoned so that an
 *     instrumented read is reported as well.
 */
#include "sim.h"
#include <sys/mman.h>
#include <unistd.h>

#if defined (SIM_VARIANT_ASAN)
#include <sanitizer/asan_interface.h>
#define POISON(p, n)   ASAN_POISON_MEMORY_REGION ((p), (n))
#define UNPOISON(p, n) ASAN_UNPOISON_MEMORY_REGION ((p), (n))
#define NO_ASAN __attribute__ ((no_sanitize_address))
#else
#define POISON(p, n)   ((void)0)
#define UNPOISON(p, n) ((void)0)
#define NO_ASAN
#endif

/* the buffer list is only touched by the thread that holds the baton; keep
 * ThreadSanitizer's attention on pixman */
#if defined (SIM_VARIANT_TSAN)
#define NO_TSAN __attribute__ ((no_sanitize ("thread")))
#else
#define NO_TSAN
#endif

void *__real_malloc (size_t);
void  __real_free (void *);

static arena_buf_t *all_bufs;

#define PAGE 4096u

NO_TSAN arena_buf_t *
arena_new (size_t size, int guarded, int flush_hi, unsigned misalign)
{
    arena_buf_t *b = __real_malloc (sizeof *b);
    size_t room;
    if (!b) { fprintf (stderr, "pxsim: arena out of memory\n"); _exit (2); }
    memset (b, 0, sizeof *b);
    misalign &= 63u & ~3u;
    b->size = size;
    b->guarded = guarded;
    b->canary = 0xa5;

    if (guarded)
    {
	uint8_t *lo, *hi;
	room = (size + 64 + 64 + PAGE - 1) & ~(size_t)(PAGE - 1);
	b->map_size = room + 2 * PAGE;
	b->map = mmap (NULL, b->map_size, PROT_READ | PROT_WRITE, MAP_PRIVATE | MAP_ANONYMOUS, -1, 0);
	if (b->map == MAP_FAILED) { fprintf (stderr, "pxsim: mmap failed\n"); _exit (2); }
	mprotect (b->map, PAGE, PROT_NONE);
	mprotect (b->map + PAGE + room, PAGE, PROT_NONE);
	lo = b->map + PAGE;
	hi = lo + room;
	if (flush_hi)
	{
	    /* end as close to the upper guard page as the requested start
	     * alignment allows (hi is page aligned) */
	    size_t e = (size_t)((0 - (size + misalign)) & 63u);
	    b->data = hi - e - size;
	}
	else
	    b->data = lo + misalign;
	b->slack_lo = lo;
	b->slack_lo_n = (size_t)(b->data - lo);
	b->slack_hi = b->data + size;
	b->slack_hi_n = (size_t)(hi - b->slack_hi);
    }
    else
    {
	room = size + 64 + 64 + 64;
	b->map_size = room;
	b->map = __real_malloc (room);
	if (!b->map) { fprintf (stderr, "pxsim: arena out of memory\n"); _exit (2); }
	{
	    uintptr_t base = ((uintptr_t)b->map + 63) & ~(uintptr_t)63;
	    b->data = (uint8_t *)base + 64 + misalign;
	}
	b->slack_lo = (uint8_t *)b->map;
	b->slack_lo_n = (size_t)(b->data - b->map);
	b->slack_hi = b->data + size;
	b->slack_hi_n = (size_t)((uint8_t *)b->map + room - b->slack_hi);
    }
    memset (b->slack_lo, b->canary, b->slack_lo_n);
    memset (b->slack_hi, b->canary, b->slack_hi_n);
    /* ASan poisons at 8-byte granularity relative to aligned addresses: a
     * partial granule can only be poisoned at its tail.  Poison what can be
     * expressed; the canary check covers the rest. */
    POISON (b->slack_lo, b->slack_lo_n & ~(size_t)7);
    {
	uintptr_t s = ((uintptr_t)b->slack_hi + 7) & ~(uintptr_t)7;
	uintptr_t e = (uintptr_t)b->slack_hi + b->slack_hi_n;
	if (e > s) POISON ((void *)s, e - s);
    }
    b->next = all_bufs;
    all_bufs = b;
    return b;
}

NO_ASAN int
arena_check (const arena_buf_t *b, long *where)
{
    size_t i;
    const volatile uint8_t *p;
    p = b->slack_lo;
    for (i = 0; i < b->slack_lo_n; i++)
	if (p[i] != b->canary) { if (where) *where = (long)i - (long)b->slack_lo_n; return 1; }
    p = b->slack_hi;
    for (i = 0; i < b->slack_hi_n; i++)
	if (p[i] != b->canary) { if (where) *where = (long)(b->size + i); return 1; }
    return 0;
}

NO_TSAN static void
release (arena_buf_t *b)
{
    UNPOISON (b->slack_lo, b->slack_lo_n);
    UNPOISON (b->slack_hi, b->slack_hi_n);
    if (b->guarded) munmap (b->map, b->map_size);
    else __real_free (b->map);
    __real_free (b);
}

NO_TSAN void
arena_free (arena_buf_t *b)
{
    arena_buf_t **pp;
    for (pp = &all_bufs; *pp; pp = &(*pp)->next)
	if (*pp == b) { *pp = b->next; break; }
    release (b);
}

NO_TSAN void
arena_free_all (void)
{
    while (all_bufs)
    {
	arena_buf_t *b = all_bufs;
	all_bufs = b->next;
	release (b);
    }
}

NO_TSAN arena_buf_t *
arena_find (const void *p)
{
    arena_buf_t *b;
    for (b = all_bufs; b; b = b->next)
	if ((const uint8_t *)p >= b->data && (const uint8_t *)p < b->data + b->size)
	    return b;
    return NULL;
}
