/* Generator helpers shared by the image worlds: they append explicit ops to
 * a scenario and keep a small picture of what each slot holds, so that the
 * generated geometry is meaningful.  Everything random happens here, at
 * plan time; execution never draws. */
#ifndef PXSIM_GEN_H
#define PXSIM_GEN_H
#include "machine.h"

typedef struct { int used, kind, w, h, fmt_idx, bpp, alpha_of, has_alpha, refs; } gslot_t;

typedef struct
{
    rng_t      *r;
    scenario_t *sc;
    gslot_t     s[M_NIMG];
    int         fault_pct;       /* chance (percent) that an op carries a fault */
    int         fault_kmax;
    int         gc_exists[M_NGC], gc_frozen[M_NGC];
    int         gc_keys[M_NGC][16][2];   /* keys inserted so far */
    int         gc_nkeys[M_NGC];
} gen_t;

void gen_init (gen_t *g, rng_t *r, scenario_t *sc, int fault_pct, int fault_kmax);

/* format classes */
enum { FC_ANY, FC_32, FC_COMMON, FC_ALPHA, FC_NARROW, FC_WIDE, FC_FASTPATH };
int  gen_pick_format (gen_t *g, int fclass);
int  gen_pick_size (gen_t *g, int maxdim);

void gen_bits (gen_t *g, int slot, int fclass, int maxw, int maxh, int flags_allowed);
void gen_bits_exact (gen_t *g, int slot, int fmt_idx, int w, int h, int pad, int neg, int misalign, int flags);
void gen_solid (gen_t *g, int slot);
void gen_gradient (gen_t *g, int slot);
void gen_yuv (gen_t *g, int slot);
void gen_source (gen_t *g, int slot, int fclass, int maxdim);      /* bits / solid / gradient mix */
void gen_unref (gen_t *g, int slot);
void gen_ref (gen_t *g, int slot);

enum { TC_NULL, TC_TRANSLATE, TC_SCALE, TC_ROT90, TC_AFFINE, TC_PROJECTIVE, TC_ANY };
void gen_transform (gen_t *g, int slot, int tclass);
void gen_filter (gen_t *g, int slot, int allow_convolution);
void gen_repeat (gen_t *g, int slot);
void gen_clip (gen_t *g, int slot, int maybe_null);
void gen_misc_prop (gen_t *g, int slot);       /* client clip, source clipping, component alpha, dither, indexed, accessors */
void gen_alpha_map (gen_t *g, int slot, int map);
void gen_destroy_cb (gen_t *g, int slot);

void gen_composite (gen_t *g, int op_class, int src, int mask, int dst);
void gen_fill_boxes (gen_t *g, int dst, int rects, int inside_only);
void gen_fill (gen_t *g, int dst);
void gen_blt (gen_t *g, int src, int dst);
void gen_traps (gen_t *g, int kind, int src, int dst);
void gen_glyph_op (gen_t *g, int kind, int c, int a, int b);
void gen_glyphs (gen_t *g, int c, int src, int dst);
void gen_region_op (gen_t *g);
void gen_misc_alloc_op (gen_t *g, int kind, int src, int mask, int dst);
void gen_cover_bilinear (gen_t *g, int src, int dst);
void gen_alias (gen_t *g, int slot, int other, int fmt_idx);

int  gen_find (gen_t *g, int want_bits, int want_used);    /* random slot index matching, or -1 */
int  gen_free_slot (gen_t *g);
#endif
