/* Included twice by region.c: once for the 32-bit and once for the 16-bit
 * region API.  RW is 32 or 16. */

#if RW == 32
#define RT(x) pixman_region32_##x
#define REGION_T pixman_region32_t
#define BOX_T pixman_box32_t
#define COORD_MIN INT32_MIN
#define COORD_MAX INT32_MAX
#define NAME(x) r32_##x
#else
#define RT(x) pixman_region_##x
#define REGION_T pixman_region16_t
#define BOX_T pixman_box16_t
#define COORD_MIN INT16_MIN
#define COORD_MAX INT16_MAX
#define NAME(x) r16_##x
#endif

static REGION_T NAME (pool)[POOL];

static BOX_T
NAME (mkbox) (const int64_t *a, int normalise)
{
    BOX_T b;
    int64_t x1 = sim_clamp (a[0], COORD_MIN, COORD_MAX), y1 = sim_clamp (a[1], COORD_MIN, COORD_MAX);
    int64_t x2 = sim_clamp (a[2], COORD_MIN, COORD_MAX), y2 = sim_clamp (a[3], COORD_MIN, COORD_MAX);
    if (normalise)
    {
	int64_t t;
	if (x1 > x2) { t = x1; x1 = x2; x2 = t; }
	if (y1 > y2) { t = y1; y1 = y2; y2 = t; }
	if (x1 == x2) { if (x2 < COORD_MAX) x2++; else x1--; }
	if (y1 == y2) { if (y2 < COORD_MAX) y2++; else y1--; }
    }
    b.x1 = x1; b.y1 = y1; b.x2 = x2; b.y2 = y2;
    return b;
}

/* point-set signature of a rectangle list whose rectangles are pairwise
 * disjoint: area, 2*sum(x), 2*sum(y), sum-of-squares terms, all mod 2^64.
 * Equal sets give equal signatures whatever the decomposition. */
static void
NAME (signature) (const BOX_T *r, int n, uint64_t sig[5])
{
    int i;
    sig[0] = sig[1] = sig[2] = sig[3] = sig[4] = 0;
    for (i = 0; i < n; i++)
    {
	uint64_t w = (uint64_t)((int64_t)r[i].x2 - r[i].x1), h = (uint64_t)((int64_t)r[i].y2 - r[i].y1);
	uint64_t sx = (uint64_t)((int64_t)r[i].x1 + r[i].x2 - 1), sy = (uint64_t)((int64_t)r[i].y1 + r[i].y2 - 1);
	uint64_t x1 = (uint64_t)(int64_t)r[i].x1, x2 = (uint64_t)(int64_t)r[i].x2;
	uint64_t y1 = (uint64_t)(int64_t)r[i].y1, y2 = (uint64_t)(int64_t)r[i].y2;
	sig[0] += w * h;
	sig[1] += w * h * sx;
	sig[2] += w * h * sy;
	/* 6*sum x^2 over [x1,x2) = f(x2)-f(x1), f(t) = (t-1)t(2t-1): telescopes, so decomposition independent */
	sig[3] += h * ((x2 - 1) * x2 * (2 * x2 - 1) - (x1 - 1) * x1 * (2 * x1 - 1));
	sig[4] += w * ((y2 - 1) * y2 * (2 * y2 - 1) - (y1 - 1) * y1 * (2 * y1 - 1));
    }
}

/* exact point-set equality of two lists of pairwise disjoint rectangles by
 * coordinate compression */
static int
NAME (same_points) (const BOX_T *a, int na, const BOX_T *b, int nb)
{
    int64_t xs[4 * MAXR + 4], ys[4 * MAXR + 4];
    int nx = 0, ny = 0, i, j, k;
    if (na > MAXR || nb > MAXR) return -1;           /* too big to judge: caller skips */
    for (i = 0; i < na; i++) { xs[nx++] = a[i].x1; xs[nx++] = a[i].x2; ys[ny++] = a[i].y1; ys[ny++] = a[i].y2; }
    for (i = 0; i < nb; i++) { xs[nx++] = b[i].x1; xs[nx++] = b[i].x2; ys[ny++] = b[i].y1; ys[ny++] = b[i].y2; }
    for (i = 1; i < nx; i++) { int64_t v = xs[i]; for (j = i; j > 0 && xs[j - 1] > v; j--) xs[j] = xs[j - 1]; xs[j] = v; }
    for (i = 1; i < ny; i++) { int64_t v = ys[i]; for (j = i; j > 0 && ys[j - 1] > v; j--) ys[j] = ys[j - 1]; ys[j] = v; }
    for (i = 0; i + 1 < nx; i++)
    {
	if (xs[i] == xs[i + 1]) continue;
	for (j = 0; j + 1 < ny; j++)
	{
	    int ina = 0, inb = 0;
	    if (ys[j] == ys[j + 1]) continue;
	    for (k = 0; k < na && !ina; k++)
		ina = a[k].x1 <= xs[i] && xs[i] < a[k].x2 && a[k].y1 <= ys[j] && ys[j] < a[k].y2;
	    for (k = 0; k < nb && !inb; k++)
		inb = b[k].x1 <= xs[i] && xs[i] < b[k].x2 && b[k].y1 <= ys[j] && ys[j] < b[k].y2;
	    if (ina != inb) return 0;
	}
    }
    return 1;
}

/* The canonical-form invariants of C06 for one region, through the public API
 * (plus the public struct's data pointer for "single rectangle stored without
 * a list").  Returns NULL if fine, else a short stable site string. */
static const char *
NAME (canonical) (REGION_T *r, char *detail, size_t dn)
{
    int n = -1, i;
    BOX_T *b = RT (rectangles) (r, &n);
    BOX_T *e = RT (extents) (r);
    int64_t bx1, by1, bx2, by2;
    detail[0] = 0;
    if (n != RT (n_rects) (r)) { snprintf (detail, dn, "rectangles() says %d, n_rects() says %d", n, RT (n_rects) (r)); return "n_rects-disagree"; }
    if (n == 0)
    {
	if (RT (not_empty) (r)) { snprintf (detail, dn, "0 rectangles but not_empty() is TRUE"); return "empty-but-not_empty"; }
	if (!RT (selfcheck) (r))
	{
	    snprintf (detail, dn, "empty region fails selfcheck: extents (%d,%d,%d,%d)", (int)e->x1, (int)e->y1, (int)e->x2, (int)e->y2);
	    return "empty-selfcheck";
	}
	return NULL;
    }
    if (!RT (not_empty) (r)) { snprintf (detail, dn, "%d rectangles but not_empty() is FALSE", n); return "nonempty-but-empty"; }
    for (i = 0; i < n; i++)
	if (b[i].x1 >= b[i].x2 || b[i].y1 >= b[i].y2)
	{
	    snprintf (detail, dn, "rect %d of %d is empty: (%d,%d,%d,%d)", i, n, (int)b[i].x1, (int)b[i].y1, (int)b[i].x2, (int)b[i].y2);
	    return "empty-rectangle";
	}
    if (n == 1 && r->data != NULL) { snprintf (detail, dn, "single rectangle stored with a list"); return "single-rect-with-list"; }
    bx1 = b[0].x1; by1 = b[0].y1; bx2 = b[0].x2; by2 = b[0].y2;
    for (i = 1; i < n; i++)
    {
	if (b[i].x1 < bx1) bx1 = b[i].x1;
	if (b[i].x2 > bx2) bx2 = b[i].x2;
	if (b[i].y1 < by1) by1 = b[i].y1;
	if (b[i].y2 > by2) by2 = b[i].y2;
	if (b[i].y1 == b[i - 1].y1)
	{
	    /* same band: same vertical extent, strict gap */
	    if (b[i].y2 != b[i - 1].y2) { snprintf (detail, dn, "rects %d,%d start a band together but end apart", i - 1, i); return "band-height-differs"; }
	    if (b[i].x1 <= b[i - 1].x2)
	    {
		snprintf (detail, dn, "rects %d,%d in one band touch or overlap or are unsorted: x2=%d x1=%d", i - 1, i, (int)b[i - 1].x2, (int)b[i].x1);
		return "band-no-gap";
	    }
	}
	else
	{
	    /* new band: must start at or below the end of the previous one */
	    if (b[i].y1 < b[i - 1].y2) { snprintf (detail, dn, "rect %d starts at y=%d inside previous band ending %d", i, (int)b[i].y1, (int)b[i - 1].y2); return "bands-overlap-or-unsorted"; }
	}
    }
    if (e->x1 != bx1 || e->y1 != by1 || e->x2 != bx2 || e->y2 != by2)
    {
	snprintf (detail, dn, "extents (%d,%d,%d,%d) but bounding box (%lld,%lld,%lld,%lld)", (int)e->x1, (int)e->y1, (int)e->x2, (int)e->y2,
		  (long long)bx1, (long long)by1, (long long)bx2, (long long)by2);
	return "extents-not-tight";
    }
    /* vertically adjacent bands with identical spans must have been merged */
    {
	int p0 = 0;            /* start of previous band */
	int c0;
	while (p0 < n)
	{
	    int p1 = p0, c1, same;
	    while (p1 < n && b[p1].y1 == b[p0].y1) p1++;
	    c0 = p1;
	    if (c0 >= n) break;
	    c1 = c0;
	    while (c1 < n && b[c1].y1 == b[c0].y1) c1++;
	    if (b[c0].y1 == b[p0].y2 && (c1 - c0) == (p1 - p0))
	    {
		same = 1;
		for (i = 0; i < p1 - p0; i++)
		    if (b[p0 + i].x1 != b[c0 + i].x1 || b[p0 + i].x2 != b[c0 + i].x2) { same = 0; break; }
		if (same) { snprintf (detail, dn, "bands at y=%d and y=%d are adjacent with identical spans", (int)b[p0].y1, (int)b[c0].y1); return "bands-not-merged"; }
	    }
	    p0 = c0;
	}
    }
    if (!RT (selfcheck) (r)) { snprintf (detail, dn, "selfcheck() is FALSE on a region that passes every listed invariant"); return "selfcheck-false"; }
    return NULL;
}

static uint64_t
NAME (state_hash) (REGION_T *r)
{
    int n;
    BOX_T *b = RT (rectangles) (r, &n);
    uint64_t h = fnv_u64 (FNV_INIT, (uint64_t)n);
    h = fnv_bytes (h, b, (size_t)n * sizeof (BOX_T));
    if (n) h = fnv_bytes (h, RT (extents) (r), sizeof (BOX_T));
    return h;
}

/* cross invariant for the pair (i,j) */
static void
NAME (check_pair) (int i, int j, int opi, result_t *res)
{
    REGION_T *a = &NAME (pool)[i], *b = &NAME (pool)[j];
    int na, nb, same, eq, k;
    BOX_T *ra = RT (rectangles) (a, &na), *rb = RT (rectangles) (b, &nb);
    uint64_t sa[5], sb[5];
    NAME (signature) (ra, na, sa);
    NAME (signature) (rb, nb, sb);
    if (memcmp (sa, sb, sizeof sa)) same = 0;
    else same = NAME (same_points) (ra, na, rb, nb);
    if (same < 0) return;
    eq = RT (equal) (a, b);
    if (same) { g_coincidences++; if (na) g_coincidences_nonempty++; }
    if (eq && !same)
    {
	res->op_index = opi;
	sim_violation (res, "C06", "C06/equal-true-on-different-sets", RW == 32 ? "region32" : "region16",
		       "equal(R%d,R%d) is TRUE but the point sets differ (n_rects %d vs %d)", i, j, na, nb);
	return;
    }
    if (same && !eq)
    {
	res->op_index = opi;
	sim_violation (res, "C06", "C06/equal-false-on-same-set",
		       na == 0 && nb == 0 ? "both-empty" : "non-empty",
		       "equal(R%d,R%d) is FALSE but both hold the same %s point set (n_rects %d vs %d)", i, j,
		       na == 0 && nb == 0 ? "empty" : "non-empty", na, nb);
	return;
    }
    if (same && na)
    {
	int identical = na == nb;
	for (k = 0; identical && k < na; k++)
	    identical = ra[k].x1 == rb[k].x1 && ra[k].x2 == rb[k].x2 && ra[k].y1 == rb[k].y1 && ra[k].y2 == rb[k].y2;
	if (!identical)
	{
	    res->op_index = opi;
	    sim_violation (res, "C06", "C06/same-set-different-rectangles", RW == 32 ? "region32" : "region16",
			   "R%d and R%d hold the same points but different rectangle lists (%d vs %d rects)", i, j, na, nb);
	}
    }
}


/* Execute one op on this width's pool.  a[] is past the common prefix.
 * Returns the API's boolean (1 for void calls); *dst_out = index of the
 * region written (or -1). */
static int
NAME (exec) (int kind, const int64_t *a, int n, int *dst_out)
{
    REGION_T *P = NAME (pool);
    int dst = (int)sim_mod (a[0], POOL);
    int ok = 1;
    *dst_out = dst;
    switch (kind)
    {
    case OP_INIT_RECTS:
    {
	BOX_T boxes[MAXB];
	int cnt = (int)sim_clamp (a[1], 0, MAXB), i;
	if (2 + 4 * cnt > n) cnt = (n - 2) / 4;
	if (cnt < 0) cnt = 0;
	for (i = 0; i < cnt; i++) boxes[i] = NAME (mkbox) (a + 2 + 4 * i, 0);
	API_ENTER ();
	RT (fini) (&P[dst]);
	ok = RT (init_rects) (&P[dst], boxes, cnt);
	API_LEAVE ();
	break;
    }
    case OP_INIT_RECT:
	API_ENTER ();
	RT (fini) (&P[dst]);
	RT (init_rect) (&P[dst], (int)sim_clamp (a[1], COORD_MIN, COORD_MAX), (int)sim_clamp (a[2], COORD_MIN, COORD_MAX),
			(unsigned)sim_clamp (a[3], 0, 0xffffffffll), (unsigned)sim_clamp (a[4], 0, 0xffffffffll));
	API_LEAVE ();
	break;
    case OP_INIT_EXT:
    {
	BOX_T b = NAME (mkbox) (a + 1, 0);
	if (b.x1 > b.x2 || b.y1 > b.y2) b = NAME (mkbox) (a + 1, 1);   /* inverted boxes are caller errors */
	API_ENTER ();
	RT (fini) (&P[dst]);
	RT (init_with_extents) (&P[dst], &b);
	API_LEAVE ();
	break;
    }
    case OP_UNION:
    case OP_INTERSECT:
    case OP_SUBTRACT:
    {
	REGION_T *x = &P[sim_mod (a[1], POOL)], *y = &P[sim_mod (a[2], POOL)];
	API_ENTER ();
	ok = kind == OP_UNION ? RT (union) (&P[dst], x, y) :
	     kind == OP_INTERSECT ? RT (intersect) (&P[dst], x, y) : RT (subtract) (&P[dst], x, y);
	API_LEAVE ();
	break;
    }
    case OP_INVERSE:
    {
	BOX_T b = NAME (mkbox) (a + 2, 1);
	API_ENTER ();
	ok = RT (inverse) (&P[dst], &P[sim_mod (a[1], POOL)], &b);
	API_LEAVE ();
	break;
    }
    case OP_UNION_RECT:
    case OP_INTERSECT_RECT:
    {
	REGION_T *src = &P[sim_mod (a[1], POOL)];
	int x = (int)sim_clamp (a[2], COORD_MIN, COORD_MAX), y = (int)sim_clamp (a[3], COORD_MIN, COORD_MAX);
	unsigned w = (unsigned)sim_clamp (a[4], 0, 0xffffffffll), h = (unsigned)sim_clamp (a[5], 0, 0xffffffffll);
	/* keep x+w, y+h representable: an overflowing sum is a caller error */
	if ((int64_t)x + w > COORD_MAX) w = (unsigned)(COORD_MAX - (int64_t)x);
	if ((int64_t)y + h > COORD_MAX) h = (unsigned)(COORD_MAX - (int64_t)y);
	API_ENTER ();
	ok = kind == OP_UNION_RECT ? RT (union_rect) (&P[dst], src, x, y, w, h) : RT (intersect_rect) (&P[dst], src, x, y, w, h);
	API_LEAVE ();
	break;
    }
    case OP_COPY:
	API_ENTER ();
	ok = RT (copy) (&P[dst], &P[sim_mod (a[1], POOL)]);
	API_LEAVE ();
	break;
    case OP_RESET:
    {
	BOX_T b = NAME (mkbox) (a + 1, 1);
	API_ENTER ();
	RT (reset) (&P[dst], &b);
	API_LEAVE ();
	break;
    }
    case OP_CLEAR:
	API_ENTER ();
	RT (clear) (&P[dst]);
	API_LEAVE ();
	break;
    case OP_TRANSLATE:
	API_ENTER ();
	RT (translate) (&P[dst], (int)sim_clamp (a[1], INT32_MIN / 2, INT32_MAX / 2), (int)sim_clamp (a[2], INT32_MIN / 2, INT32_MAX / 2));
	API_LEAVE ();
	break;
    case OP_FROM_IMAGE:
    {
	int w = (int)sim_clamp (a[1], 1, 64), h = (int)sim_clamp (a[2], 1, 8), i;
	static uint32_t bits[2 * 8];
	pixman_image_t *img;
	for (i = 0; i < 16; i++) bits[i] = 3 + i < n ? (uint32_t)a[3 + i] : 0;
	img = pixman_image_create_bits (PIXMAN_a1, w, h, bits, 8);
	if (!img) { ok = 1; *dst_out = -1; break; }
	API_ENTER ();
	RT (fini) (&P[dst]);
	RT (init_from_image) (&P[dst], img);
	API_LEAVE ();
	pixman_image_unref (img);
	break;
    }
    default:
	*dst_out = -1;
	break;
    }
    return ok;
}

#undef RT
#undef REGION_T
#undef BOX_T
#undef COORD_MIN
#undef COORD_MAX
#undef NAME
