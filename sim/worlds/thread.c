/* World `thread` — decides C16: concurrent drawing from several threads is
 * race-free and deterministic.
 *
 * N real pthreads, each with its own explicit op list on thread-private
 * destinations, regions and glyph caches; sources are private or shared
 * read-only after their first use (created and drawn from once on the main
 * thread before the workers exist).  Exactly one thread runs at a time; the
 * hand-overs are read from an explicit schedule at scheduling points:
 * API-call boundaries, the library's own VERIF_POINTs around the fast path
 * cache and in _pixman_image_validate (hooks H2, H3), and a seed-chosen
 * fraction of accessor callbacks.
 *
 * Oracles: (1) alone = together, (2) the access ledger of the hooked sites,
 * (3) ThreadSanitizer on the tsan variant, to which the baton is invisible.
 */
#include "machine.h"
#include "gen.h"
#include "baton.h"
#include <pthread.h>

#define SH0 8                 /* image slots SH0.. are the shared, read-only ones */
#define TID_MAIN 99
#define MOP_SCHEDULE MOP_N

static const char *thread_op_names[MOP_N + 1];

static __thread int my_tid = -1;
static __thread long acc_counter;
static int acc_every;

typedef struct
{
    int id;
    const scenario_t *sc;
    machine_t *m;
    uint64_t digest;
    int use_baton;
    long ops_run;
} tctx_t;

static void
point_handler (int site, const void *obj, int rw, const void *aux)
{
    if (my_tid < 0) return;
    ledger_add (my_tid, site, rw, obj);
    baton_point (my_tid);
}

static void
accessor_hook (void)
{
    if (my_tid < 0 || acc_every <= 0) return;
    if (++acc_counter % acc_every == 0) baton_point (my_tid);
}

/* would this op modify (or drop, or re-reference) a shared image? */
static int
writes_shared (const sim_op_t *op)
{
    const int64_t *a = op->a + M_PREFIX;
    int n = op->n - M_PREFIX;
#define AA(i) ((i) < n ? a[(i)] : 0)
#define SH(v) ((v) >= 0 && sim_mod ((v), M_NIMG) >= SH0)
    switch (op->kind)
    {
    case MOP_COMPOSITE: return SH (AA (3));
    case MOP_FILL_BOXES: case MOP_FILL_RECTS: return SH (AA (1));
    case MOP_BLT: return SH (AA (1));
    case MOP_COMPOSITE_TRAPS: case MOP_COMPOSITE_TRIS: case MOP_GLYPHS: return SH (AA (2));
    case MOP_FILL: case MOP_ADD_TRAPS: case MOP_ADD_TRAPEZOIDS: case MOP_RASTERIZE_TRAP: case MOP_ADD_TRIS: case MOP_SCRIBBLE:
	return SH (AA (0));
    case MOP_SET_ALPHA_MAP: return SH (AA (0)) || SH (AA (1));
    case MOP_COMPUTE_REGION: return 0;
    default:
	if (op->kind <= MOP_SET_DITHER_OFFSET) return SH (AA (0));
	return 0;
    }
#undef SH
#undef AA
}

static void *
worker (void *p)
{
    tctx_t *t = p;
    const scenario_t *sc = t->sc;
    uint64_t h = FNV_INIT;
    int j;
    my_tid = t->use_baton ? t->id : -1;
    acc_counter = 0;
    if (t->use_baton) baton_wait_turn (t->id);
    for (j = 0; j < sc->n_ops; j++)
    {
	const sim_op_t *op = &sc->ops[j];
	sim_op_t clean;
	mstep_t st;
	if (op->kind == MOP_SCHEDULE || op->n < 1 || op->a[0] != t->id) continue;
	if (writes_shared (op)) continue;
	if (t->use_baton) baton_point (t->id);           /* API boundary */
	clean = *op;
	clean.a[0] = clean.a[1] = clean.a[2] = 0;
	machine_step (t->m, &clean, j, &st);
	t->ops_run++;
	h = fnv_u64 (h, ((uint64_t)j << 4) ^ (uint64_t)(st.ret * 2 + st.executed));
	if (st.aux) h = fnv_u64 (h, st.aux);
	if (st.is_draw && st.dst_slot >= 0) h = machine_hash_slot (t->m, st.dst_slot, h);
	if (st.region_written) h = machine_hash_region (t->m, st.region_written, st.region_slot, h);
    }
    h = machine_hash_all (t->m, h);
    t->digest = h;
    if (t->use_baton) baton_finish (t->id);
    my_tid = -1;
    return NULL;
}

static machine_t *
make_shared (const scenario_t *sc, int chain)
{
    machine_t *ms = machine_new (0, 0, chain);
    int j;
    for (j = 0; j < sc->n_ops; j++)
    {
	const sim_op_t *op = &sc->ops[j];
	sim_op_t clean;
	mstep_t st;
	if (op->kind == MOP_SCHEDULE || op->n < 1 || op->a[0] != TID_MAIN) continue;
	clean = *op;
	clean.a[0] = clean.a[1] = clean.a[2] = 0;
	machine_step (ms, &clean, j, &st);
    }
    return ms;
}

/* Tiled canvas: when the scenario says so, slot 0 of every thread is a tile of ONE
 * buffer (columns side by side, no gap), as in tiled rendering: distinct destinations
 * whose pixels are neighbours in memory. */
static arena_buf_t *canvas;
static int canvas_fmt, canvas_tw, canvas_h, canvas_stride;

static machine_t *
make_private (machine_t *ms, int chain)
{
    /* chain -1: the workers never write global_implementation; the main thread installed it */
    machine_t *m = machine_new (0, 0, -1);
    int k;
    for (k = SH0; k < M_NIMG; k++)
    {
	m->img[k] = ms->img[k];
	m->img[k].buf = NULL;            /* the shared machine owns the storage */
    }
    m->shared_regions = ms;            /* its regions are read-only operands for every thread */
    return m;
}

static void
free_private (machine_t *m)
{
    int k;
    for (k = SH0; k < M_NIMG; k++) { m->img[k].used = 0; m->img[k].img = NULL; m->img[k].refs = 0; m->img[k].buf = NULL; m->img[k].has_alpha = -1; m->img[k].is_alpha_of = 0; }
    /* private images must not believe they are attached to a shared map */
    for (k = 0; k < SH0; k++) if (m->img[k].has_alpha >= SH0) m->img[k].has_alpha = -1;
    machine_free (m);
}

static const char *site_names[] = { "?", "fast-path-cache:scan", "fast-path-cache:reorder", "fast-path-cache:store",
				    "image:dirty-test", "image:recompute", "image:mark-clean", "glyph-probe" };

static void
execute (const scenario_t *sc, const char *property, result_t *res)
{
    int n = (int)sim_clamp (sc_get (sc, "threads", 2), 1, BATON_MAX_THREADS);
    int chain = (int)sc_get (sc, "chain", 0);
    int64_t *sched = NULL;
    int nsched = 0, capsched = 0, j, i;
    tctx_t t[BATON_MAX_THREADS];
    pthread_t th[BATON_MAX_THREADS];
    machine_t *ms;
    uint64_t h = FNV_INIT, together[BATON_MAX_THREADS];

    acc_every = (int)sc_get (sc, "acc_every", 0);
    for (j = 0; j < sc->n_ops; j++)
	if (sc->ops[j].kind == MOP_SCHEDULE)
	    for (i = 0; i < sc->ops[j].n; i++)
	    {
		if (nsched == capsched) { capsched = capsched ? 2 * capsched : 256; sched = realloc (sched, capsched * sizeof *sched); }
		sched[nsched++] = sc->ops[j].a[i];
	    }

    sim_alloc.tracking = 0;
    sim_point_handler = point_handler;
    machine_accessor_hook = accessor_hook;

    /* ---- together */
    chain_install (chain);
    ms = make_shared (sc, chain);
    baton_reset (n, sched, nsched);
    canvas = NULL;
    if (sc_get (sc, "canvas_tw", 0) > 0)
    {
	static const pixman_format_code_t cf[] = { PIXMAN_a8, PIXMAN_a8r8g8b8, PIXMAN_r5g6b5, PIXMAN_a8 };
	int k;
	canvas_tw = (int)sim_clamp (sc_get (sc, "canvas_tw", 0), 1, 64);
	canvas_h = (int)sim_clamp (sc_get (sc, "canvas_h", 4), 1, 16);
	for (k = 0; k < sim_n_formats; k++) if (sim_formats[k] == cf[sim_mod (sc_get (sc, "canvas_fmt", 0), 4)]) break;
	canvas_fmt = k;
	canvas_stride = ((n * canvas_tw * PIXMAN_FORMAT_BPP (sim_formats[canvas_fmt]) / 8) + 3) & ~3;
	canvas = arena_new ((size_t)canvas_stride * canvas_h, 0, 0, 0);
	memset (canvas->data, 0x33, (size_t)canvas_stride * canvas_h);
    }
    for (i = 0; i < n; i++)
    {
	memset (&t[i], 0, sizeof t[i]);
	t[i].id = i; t[i].sc = sc; t[i].m = make_private (ms, chain); t[i].use_baton = 1;
	if (canvas)
	    machine_adopt_tile (t[i].m, 0, canvas_fmt, canvas_tw, canvas_h,
				canvas->data + (size_t)i * canvas_tw * PIXMAN_FORMAT_BPP (sim_formats[canvas_fmt]) / 8, canvas_stride);
    }
    for (i = 0; i < n; i++)
	if (pthread_create (&th[i], NULL, worker, &t[i])) { fprintf (stderr, "pxsim: pthread_create failed\n"); _exit (2); }
    baton_start (0);
    for (i = 0; i < n; i++) pthread_join (th[i], NULL);
    for (i = 0; i < n; i++) { together[i] = t[i].digest; h = fnv_u64 (h, t[i].digest); sim_count ("thread_ops_executed", t[i].ops_run); }
    sim_count ("scheduling_points", baton_points ());
    sim_count ("context_switches", baton_switches ());
    res->key = baton_interleaving_hash ();
    res->nontrivial = baton_switches () >= 2;

    /* ---- access ledger: same object, two worker threads, at least one write */
    {
	int c = ledger_count (), x, y;
	long per_site[8] = { 0 };
	for (x = 0; x < c; x++) per_site[ledger_get (x)->site & 7]++;
	for (x = 1; x < 7; x++) { char nm[64]; snprintf (nm, sizeof nm, "points@%s", site_names[x]); sim_count (nm, per_site[x]); }
	for (x = 0; x < c && !res->violated; x++)
	{
	    const ledger_entry_t *e = ledger_get (x);
	    int cache = e->site <= PIXMAN_VERIF_SITE_CACHE_STORE;
	    if (!e->rw) continue;
	    if (!cache)
	    {
		/* images are identified by address, and a private image may be freed by one
		 * thread and its address handed to another: only the shared images, which
		 * all live for the whole run, can be judged by address */
		int k, shared = 0;
		for (k = SH0; k < M_NIMG; k++) if (ms->img[k].img == (const pixman_image_t *)e->obj) shared = 1;
		if (shared)
		    sim_violation (res, "C16", "C16/shared-image-written-after-first-use", site_names[e->site & 7],
				   "thread %d writes at '%s' to a shared source image that was used once before the threads started", e->thread, site_names[e->site & 7]);
		continue;
	    }
	    for (y = 0; y < c; y++)
	    {
		const ledger_entry_t *f = ledger_get (y);
		if (f->obj == e->obj && f->thread != e->thread && f->site <= PIXMAN_VERIF_SITE_CACHE_STORE)
		{
		    sim_violation (res, "C16", "C16/dispatch-cache-shared-between-threads", site_names[e->site & 7],
				   "thread %d writes at '%s' the same cache object that thread %d touches at '%s' (%s)", e->thread, site_names[e->site & 7],
				   f->thread, site_names[f->site & 7], f->rw ? "write" : "read");
		    break;
		}
	    }
	}
	sim_count ("ledger_entries", c);
    }
    for (i = 0; i < n; i++) free_private (t[i].m);
    machine_free (ms);
    arena_free_all ();

    /* ---- alone: each thread's list by itself, no scheduler, fresh everything */
    for (i = 0; i < n && !res->violated; i++)
    {
	tctx_t a;
	pthread_t one;
	ms = make_shared (sc, chain);
	memset (&a, 0, sizeof a);
	a.id = i; a.sc = sc; a.m = make_private (ms, chain); a.use_baton = 0;
	if (sc_get (sc, "canvas_tw", 0) > 0)
	{
	    canvas = arena_new ((size_t)canvas_stride * canvas_h, 0, 0, 0);
	    memset (canvas->data, 0x33, (size_t)canvas_stride * canvas_h);
	    machine_adopt_tile (a.m, 0, canvas_fmt, canvas_tw, canvas_h,
				canvas->data + (size_t)i * canvas_tw * PIXMAN_FORMAT_BPP (sim_formats[canvas_fmt]) / 8, canvas_stride);
	}
	pthread_create (&one, NULL, worker, &a);
	pthread_join (one, NULL);
	if (a.digest != together[i])
	    sim_violation (res, "C16", "C16/alone-differs-from-together", "digest",
			   "thread %d of %d obtained digest %016llx running together with the others but %016llx running alone",
			   i, n, (unsigned long long)together[i], (unsigned long long)a.digest);
	free_private (a.m);
	machine_free (ms);
	arena_free_all ();
    }
    sim_point_handler = NULL;
    machine_accessor_hook = NULL;
    free (sched);
    sim_count ("ops_executed", sc->n_ops);
    res->hash = fnv_u64 (h, res->key);
}

/* ---------------------------------------------------------------- generator */

static void
retag (scenario_t *sc, int from, int tid)
{
    int j;
    for (j = from; j < sc->n_ops; j++) { sc->ops[j].a[0] = tid; sc->ops[j].a[1] = sc->ops[j].a[2] = 0; }
}

static void
generate (uint64_t seed, int tier, const char *property, scenario_t *sc)
{
    rng_t r;
    gen_t g;
    int n, i, k, from, nsched, swp;
    static const int chains[] = { 0, 0, 0, 0, 15, 16, 1, 4, 6, 31 };
    rng_seed (&r, seed, 5);
    n = (int)rng_range (&r, 2, tier ? 6 : 4);
    sc_set (sc, "threads", n);
    sc_set (sc, "chain", chains[rng_n (&r, 10)]);
    sc_set (sc, "acc_every", rng_chance (&r, 1, 2) ? 0 : (int)rng_range (&r, 3, 200));
    if (rng_chance (&r, 1, 3))
    {
	/* destinations are tiles of one canvas */
	sc_set (sc, "canvas_tw", rng_range (&r, 3, 40));
	sc_set (sc, "canvas_h", rng_range (&r, 1, 8));
	sc_set (sc, "canvas_fmt", rng_n (&r, 4));
    }

    /* shared, read-only after first use: slots SH0..SH0+3 on the main thread */
    gen_init (&g, &r, sc, 0, 0);
    from = sc->n_ops;
    gen_bits (&g, 0, FC_32, 40, 8, 0);                      /* scratch destination for the first use */
    for (k = SH0; k < M_NIMG; k++)
    {
	if (rng_chance (&r, 1, 10)) gen_yuv (&g, k);
	else switch (rng_n (&r, 5))
	{
	case 0: gen_solid (&g, k); break;
	case 1: gen_gradient (&g, k); break;
	default: gen_bits (&g, k, rng_chance (&r, 1, 2) ? FC_FASTPATH : FC_ANY, 40, 16, 0x1); break;
	}
	if (rng_chance (&r, 1, 2)) gen_transform (&g, k, TC_ANY);
	if (rng_chance (&r, 1, 2)) gen_filter (&g, k, 1);
	if (rng_chance (&r, 1, 2)) gen_repeat (&g, k);
	if (rng_chance (&r, 1, 3))
	{
	    /* a client clip that applies to the image as a source */
	    int64_t a[6] = { 0, 0, 0, k, 1 };
	    gen_clip (&g, k, 0);
	    if (rng_chance (&r, 3, 4)) { sc_addv (sc, MOP_SET_CLIENT_CLIP, 5, a); sc_addv (sc, MOP_SET_SOURCE_CLIPPING, 5, a); }
	}
    }
    /* one shared source in three carries an alpha map, itself one of the shared images: using such a
     * source must not touch either of them any more than using a plain one does */
    for (k = SH0; k < M_NIMG; k++)
	if (g.s[k].kind == MOP_BITS && g.s[k].bpp <= 32 && rng_chance (&r, 1, 3))
	{
	    int k2 = SH0 + (int)rng_n (&r, M_NIMG - SH0);
	    if (k2 != k && g.s[k2].kind == MOP_BITS && g.s[k2].bpp <= 32 && g.s[k2].has_alpha < 0 && g.s[k].alpha_of == 0) gen_alpha_map (&g, k, k2);
	}
    /* the first use, on the main thread, before any worker exists */
    for (k = SH0; k < M_NIMG; k++) gen_composite (&g, 1, k, -1, 0);
    /* regions of the main thread: operands (never destinations) of the workers' region algebra;
     * now and then one of them is the broken region */
    for (k = 0; k < 2 * M_NREG; k++)
    {
	int64_t a[64];
	int n = 0, cnt = (int)rng_range (&r, 0, 8), q;
	a[n++] = 0; a[n++] = 0; a[n++] = 0;
	a[n++] = k & 1; a[n++] = k / 2;
	if (rng_chance (&r, 1, 6)) a[n++] = 100000;
	else
	{
	    a[n++] = cnt;
	    for (q = 0; q < cnt; q++) { int64_t x = rng_range (&r, 0, 60), y = rng_range (&r, 0, 60); a[n++] = x; a[n++] = y; a[n++] = x + rng_range (&r, 1, 20); a[n++] = y + rng_range (&r, 1, 20); }
	}
	sc_addv (sc, MOP_R_INIT_RECTS, n, a);
    }
    retag (sc, from, TID_MAIN);

    for (i = 0; i < n; i++)
    {
	gen_t p;
	int n_ops = (int)rng_range (&r, 10, tier ? 40 : 25), q;
	gen_init (&p, &r, sc, 0, 0);
	/* the generator's picture of the shared slots */
	for (k = SH0; k < M_NIMG; k++) p.s[k] = g.s[k];
	from = sc->n_ops;
	gen_bits (&p, 0, rng_chance (&r, 2, 3) ? FC_FASTPATH : FC_ANY, 64, 8, 0x9);
	gen_bits (&p, 1, FC_ALPHA, 32, 8, 0x9);
	/* a destination clip of several boxes: the composite region then has more boxes than a
	 * shared source's clip, which is when the two are combined the other way round */
	if (rng_chance (&r, 1, 3)) gen_clip (&p, 0, 0);
	if (rng_chance (&r, 1, 3))
	{
	    /* dithering on the private destination (it happens when the wide pipeline stores into a narrow format) */
	    int64_t d[5] = { 0, 0, 0, 0, 1 + (int64_t)rng_n (&r, 5) }, o[6] = { 0, 0, 0, 0, rng_range (&r, -9, 70), rng_range (&r, -9, 70) };
	    sc_addv (sc, MOP_SET_DITHER, 5, d);
	    if (rng_chance (&r, 1, 2)) sc_addv (sc, MOP_SET_DITHER_OFFSET, 6, o);
	}
	gen_source (&p, 2, FC_ANY, 24);
	for (q = 0; q < n_ops; q++)
	{
	    int roll = (int)rng_n (&r, 100);
	    int dst = (int)rng_n (&r, 2);
	    int src = rng_chance (&r, 2, 3) ? SH0 + (int)rng_n (&r, M_NIMG - SH0) : 2;
	    int mask = rng_chance (&r, 1, 3) ? (rng_chance (&r, 1, 2) ? SH0 + (int)rng_n (&r, M_NIMG - SH0) : 2) : -1;
	    if (roll < 50) gen_composite (&p, 1, src, mask, dst);
	    else if (roll < 60) gen_fill_boxes (&p, dst, rng_chance (&r, 1, 2), 0);
	    else if (roll < 64) gen_fill (&p, dst);
	    else if (roll < 74) { static const int tk[] = { MOP_COMPOSITE_TRAPS, MOP_COMPOSITE_TRIS, MOP_ADD_TRAPS, MOP_ADD_TRAPEZOIDS }; gen_traps (&p, tk[rng_n (&r, 4)], src, dst); }
	    else if (roll < 78) gen_region_op (&p);
	    else if (roll < 82)
	    {
		int64_t a[9] = { 0, 0, 0, (int64_t)rng_n (&r, 2), (int64_t)rng_n (&r, 3), (int64_t)rng_n (&r, M_NREG), (int64_t)rng_n (&r, M_NREG), (int64_t)rng_n (&r, 2 * M_NREG), (int64_t)rng_n (&r, 2) };
		sc_addv (sc, MOP_R_SHARED_BINOP, 9, a);
	    }
	    else if (roll < 90)
	    {
		if (!p.gc_exists[0]) { gen_glyph_op (&p, MOP_GC_CREATE, 0, 0, 0); gen_glyph_op (&p, MOP_GC_INSERT, 0, rng_chance (&r, 1, 2) ? 1 : SH0 + (int)rng_n (&r, 4), 0); }
		else gen_glyphs (&p, 0, src, dst);
	    }
	    else if (roll < 93) { gen_transform (&p, 2, TC_ANY); gen_filter (&p, 2, 0); }
	    else if (roll < 95) gen_misc_alloc_op (&p, MOP_FILTER_CREATE, 0, 0, 0);
	    else { int fs = 3 + (int)rng_n (&r, 3); if (!p.s[fs].used) gen_source (&p, fs, FC_ANY, 16); else gen_unref (&p, fs); }
	}
	retag (sc, from, i);
    }
    /* the schedule: one decision per scheduling point, with a per-run switch probability */
    nsched = 40 * sc->n_ops;
    if (nsched > 6000) nsched = 6000;
    swp = (int)rng_range (&r, 2, 50);
    for (k = 0; k < nsched; )
    {
	int64_t a[SIM_MAX_ARGS];
	int c = 0;
	while (c < SIM_MAX_ARGS && k < nsched)
	{
	    a[c++] = rng_n (&r, 100) < (uint32_t)swp ? (int64_t)rng_range (&r, 1, n) : 0;
	    k++;
	}
	sc_addv (sc, MOP_SCHEDULE, c, a);
    }
}

static void
init (void)
{
    int i;
    for (i = 0; i < MOP_N; i++) thread_op_names[i] = mop_names[i];
    thread_op_names[MOP_N] = "schedule";
    chains_init ();
    /* touch every lazily built harness table on the main thread */
    {
	machine_t *m = machine_new (0, 0, -1);
	sim_op_t op;
	mstep_t st;
	int f;
	memset (&op, 0, sizeof op);
	for (f = 0; f < sim_n_formats; f++)
	{
	    op.kind = MOP_BITS; op.n = M_PREFIX + 9; op.a[M_PREFIX] = 0; op.a[M_PREFIX + 1] = f; op.a[M_PREFIX + 2] = 2; op.a[M_PREFIX + 3] = 2;
	    machine_step (m, &op, 0, &st);
	    op.kind = MOP_UNREF; op.n = M_PREFIX + 1;
	    machine_step (m, &op, 0, &st);
	}
	machine_free (m);
	arena_free_all ();
    }
}

static world_t world = { "thread", thread_op_names, MOP_N + 1, generate, execute, init };

int
main (int argc, char **argv)
{
    return sim_main (argc, argv, &world);
}
