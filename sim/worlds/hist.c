/* World `hist` — histories on long-lived objects.
 *
 *   C14: rendering depends only on an image's current properties.  A pool of
 *        long-lived images goes through a seeded history of setters (with
 *        allocation failures as events) interleaved with drawing.  Before
 *        each drawing request fresh replicas of the participating images are
 *        built from the model (last successfully applied value of every
 *        property), the request is executed on both, and the destinations
 *        must agree.  Same library on both sides: only "object with a past"
 *        versus "object without one" can differ.
 *
 *   C20: image lifetime.  ref / unref / set_destroy_function / set_alpha_map
 *        in every legal and refused shape / setters that replace owned
 *        buffers / glyph cache use; oracle = reference-count + attachment
 *        model, destroy-callback ledger, exact live-block ledger of the
 *        allocator wrapper (no leak, no double free, caller pixels never
 *        freed), ASan for use-after-free.
 */
#include "machine.h"
#include "gen.h"

/* ------------------------------------------------------------ C14 */

/* Build a shadow machine whose slots `list` hold fresh replicas of m's. */
static machine_t *
make_shadow (machine_t *m, const int *list, int nl, int dst)
{
    machine_t *s = machine_new (0, 0, m->chain);
    int i;
    for (i = 0; i < nl; i++)
    {
	int slot = list[i], share = slot != dst;
	arena_buf_t *buf = NULL, *abuf = NULL;
	pixman_image_t *alpha = NULL, *img;
	mslot_t *d;
	if (slot < 0 || s->img[slot].used) continue;
	img = machine_replica (m, slot, share, &buf, &alpha, &abuf);
	if (!img) { machine_free (s); return NULL; }
	d = &s->img[slot];
	*d = m->img[slot];
	d->img = img; d->buf = buf; d->refs = 1; d->cb_id = 0; d->destroy_calls = 0; d->is_alpha_of = 0;
	if (!share) d->lowest = buf->data;
	d->has_alpha = -1;
	if (alpha)
	{
	    int as = m->img[slot].has_alpha;
	    mslot_t *a = &s->img[as];
	    if (!a->used)
	    {
		*a = m->img[as];
		a->img = alpha; a->buf = abuf; a->refs = 1; a->cb_id = 0; a->destroy_calls = 0; a->has_alpha = -1; a->is_alpha_of = 1;
		if (abuf) a->lowest = abuf->data;
		d->has_alpha = as;
	    }
	    else
	    {
		/* the map is itself an operand that was replicated already: the owner holds its own copy; drop bookkeeping */
		d->has_alpha = -1;
		pixman_image_unref (alpha);
		if (abuf) arena_free (abuf);
	    }
	}
	else if (m->img[slot].has_alpha == slot)
	    d->has_alpha = slot, d->is_alpha_of = 1;
    }
    return s;
}

typedef struct { machine_t *s; const sim_op_t *op; int idx; mstep_t st; } shadow_step_t;
static void shadow_thread (void *p) { shadow_step_t *x = p; machine_step (x->s, x->op, x->idx, &x->st); }

static void
execute_c14 (const scenario_t *sc, result_t *res)
{
    machine_t *m;
    uint64_t h = FNV_INIT;
    int j, checked = 0, cold = (int)sc_get (sc, "cold_replica", 0), reissue = (int)sc_get (sc, "reissue", 1);
    int chain = (int)sc_get (sc, "chain", 0);
    long faults = 0;

    sim_alloc_reset ();
    sim_alloc.tracking = 1;
    m = machine_new (1, 0, chain);
    for (j = 0; j < sc->n_ops && !res->violated; j++)
    {
	const sim_op_t *op = &sc->ops[j];
	const int64_t *a = op->a + M_PREFIX;
	int n = op->n - M_PREFIX;
	mstep_t st;
	machine_t *shadow = NULL;
	int list[3] = { -1, -1, -1 }, dst = -1, replicate = 0;
#define AA(i) ((i) < n ? a[(i)] : 0)
	switch (op->kind)
	{
	case MOP_COMPOSITE:
	    list[0] = (int)sim_mod (AA (1), M_NIMG); list[1] = AA (2) < 0 ? -1 : (int)sim_mod (AA (2), M_NIMG);
	    list[2] = dst = (int)sim_mod (AA (3), M_NIMG); replicate = 1; break;
	case MOP_COMPOSITE_TRAPS: case MOP_COMPOSITE_TRIS:
	    list[0] = (int)sim_mod (AA (1), M_NIMG); list[2] = dst = (int)sim_mod (AA (2), M_NIMG); replicate = 1; break;
	case MOP_FILL_BOXES: case MOP_FILL_RECTS:
	    list[2] = dst = (int)sim_mod (AA (1), M_NIMG); replicate = 1; break;
	case MOP_ADD_TRAPS: case MOP_ADD_TRAPEZOIDS: case MOP_RASTERIZE_TRAP: case MOP_ADD_TRIS:
	    list[2] = dst = (int)sim_mod (AA (0), M_NIMG); replicate = 1; break;
	default: break;
	}
#undef AA
	if (replicate)
	{
	    int ok = 1, k;
	    for (k = 0; k < 3; k++)
		if (list[k] >= 0 && !(m->img[list[k]].used && m->img[list[k]].refs > 0)) ok = 0;
	    if (ok && m->img[dst].kind != MOP_BITS) ok = 0;
	    if (ok && (m->img[dst].has_alpha == dst)) ok = 0;
	    if (ok) shadow = make_shadow (m, list, 3, dst);
	}
	machine_step (m, op, j, &st);
	faults += st.n_failed;
	h = fnv_u64 (h, ((uint64_t)j << 4) ^ (uint64_t)(st.ret * 2 + st.executed));
	if (st.executed) sim_count (mop_names[op->kind], 1);
	if (st.executed && st.has_status && !st.ret && st.n_failed && !st.is_draw &&
	    (reissue || (op->kind != MOP_SET_TRANSFORM && op->kind != MOP_SET_FILTER)))
	{
	    /* the setter reported failure: the caller issues it again (in half of the runs a
	     * failed set_transform / set_filter is NOT repeated: the image must then render
	     * like a fresh one with the last value that WAS applied) */
	    sim_op_t again = *op;
	    mstep_t s2;
	    again.a[0] = again.a[1] = again.a[2] = 0;
	    machine_step (m, &again, j, &s2);
	    sim_count ("setter_reissued_after_fault", 1);
	}
	if (shadow)
	{
	    if (st.executed && st.is_draw && !st.n_failed)
	    {
		shadow_step_t x;
		sim_op_t clean = *op;
		long off;
		clean.a[0] = clean.a[1] = clean.a[2] = 0;
		x.s = shadow; x.op = &clean; x.idx = j;
		if (cold) run_on_fresh_thread (shadow_thread, &x);
		else shadow_thread (&x);
		checked++;
		off = machine_compare_slot (m, shadow, st.dst_slot);
		if (off < 0 && st.dst2_slot >= 0 && shadow->img[st.dst2_slot].used)
		{
		    off = machine_compare_slot (m, shadow, st.dst2_slot);
		    if (off >= 0) off += 1000000;
		}
		if (!x.st.executed) off = -2;
		if (off != -1)
		{
		    char site[128];
		    int k, np = 0;
		    /* which properties have a history on the operands: the site */
		    static const char *pn[] = { "transform", "filter", "repeat", "clip", "client_clip", "source_clipping", "alpha_map",
						"component_alpha", "accessors", "indexed", "dither", "dither_offset" };
		    site[0] = 0;
		    for (k = 0; k < 12 && np < 100; k++)
		    {
			int q, any = 0;
			for (q = 0; q < 3; q++) if (list[q] >= 0 && m->img[list[q]].prop_set[k]) any = 1;
			if (any) np += snprintf (site + np, sizeof site - np, "%s%s", np ? "," : "", pn[k]);
		    }
		    res->op_index = j;
		    sim_violation (res, "C14", "C14/long-lived-image-renders-unlike-fresh-replica", mop_names[op->kind],
				   "op %d (%s): destination slot %d differs from the same request on freshly created images with the same final properties (first difference at byte %ld%s); properties set during the history: %s",
				   j, mop_names[op->kind], st.dst_slot, off % 1000000, off >= 1000000 ? " of the alpha map" : off == -2 ? ", replica request not executable" : "", site);
		}
		h = machine_hash_slot (m, st.dst_slot, h);
	    }
	    machine_free (shadow);
	}
    }
    machine_free (m);
    sim_alloc.tracking = 0;
    arena_free_all ();
    sim_count ("replica_comparisons", checked);
    sim_count ("faults_fired", faults);
    sim_count ("ops_executed", sc->n_ops);
    res->hash = h;
    res->key = h;
    res->nontrivial = checked >= 3;
}

/* ------------------------------------------------------------ C20 */

static void
execute_c20 (const scenario_t *sc, result_t *res)
{
    machine_t *m;
    uint64_t h = FNV_INIT;
    int j, i, round;
    long faults = 0, releases = 0;

    sim_alloc_reset ();
    sim_alloc.tracking = 1;
    m = machine_new (1, 0, -1);
    for (j = 0; j < sc->n_ops + 1 && !res->violated; j++)
    {
	mstep_t st;
	int before_cb = m->cb_total;
	if (j < sc->n_ops)
	{
	    const sim_op_t *op = &sc->ops[j];
	    sim_alloc.bad_free = 0; sim_alloc.bad_free_site = NULL;
	    machine_step (m, op, j, &st);
	    faults += st.n_failed;
	    if (st.executed) sim_count (mop_names[op->kind], 1);
	    h = fnv_u64 (h, ((uint64_t)j << 8) ^ (uint64_t)(st.ret * 2 + st.executed) ^ ((uint64_t)(m->cb_total - before_cb) << 4));
	    res->op_index = j;
	    if (st.model_valid)
	    {
		if (st.model_ret) releases++;
		if (st.ret != st.model_ret)
		    sim_violation (res, "C20", st.ret ? "C20/unref-true-while-still-referenced" : "C20/unref-false-on-last-reference", mop_names[op->kind],
				   "op %d: pixman_image_unref returned %d, the reference model says %d", j, st.ret, st.model_ret);
	    }
	    if (st.executed && st.has_status && !st.ret && st.n_failed && !st.is_draw && !st.model_valid)
	    {
		sim_op_t again = *op;
		mstep_t s2;
		again.a[0] = again.a[1] = again.a[2] = 0;
		machine_step (m, &again, j, &s2);
	    }
	}
	else
	{
	    /* the end of every history: the user drops everything it still holds */
	    for (i = 0; i < M_NGC; i++)
	    {
		sim_op_t op; memset (&op, 0, sizeof op); op.kind = MOP_GC_DESTROY; op.n = M_PREFIX + 1; op.a[M_PREFIX] = i;
		machine_step (m, &op, j, &st);
	    }
	    for (round = 0; round < 8 && !m->ledger_violation; round++)
		for (i = 0; i < M_NIMG && !m->ledger_violation; i++)
		    while (m->img[i].used && m->img[i].refs > 0 && !m->ledger_violation)
		    {
			sim_op_t op; memset (&op, 0, sizeof op); op.kind = MOP_UNREF; op.n = M_PREFIX + 1; op.a[M_PREFIX] = i;
			machine_step (m, &op, j, &st);
			if (st.model_valid && st.ret != st.model_ret && !res->violated)
			    sim_violation (res, "C20", st.ret ? "C20/unref-true-while-still-referenced" : "C20/unref-false-on-last-reference", "final-unref",
					   "final unref of slot %d returned %d, the reference model says %d", i, st.ret, st.model_ret);
			if (st.model_ret) releases++;
		    }
	}
	if (m->ledger_violation && !res->violated)
	    sim_violation (res, "C20", "C20/destroy-callback-ledger", j < sc->n_ops ? mop_names[sc->ops[j].kind] : "final-unref", "%s", m->ledger_detail);
	if (m->cb_unexpected && !res->violated)
	    sim_violation (res, "C20", "C20/destroy-callback-for-unknown-object", j < sc->n_ops ? mop_names[sc->ops[j].kind] : "final-unref",
			   "a destroy callback ran for an image the user no longer knows (op %d)", j);
	if (sim_alloc.bad_free && !res->violated)
	    sim_violation (res, "C20", "C20/invalid-or-double-free", j < sc->n_ops ? mop_names[sc->ops[j].kind] : "final-unref",
			   "free/realloc of a pointer that is not a live block of pixman's (site %p), op %d", sim_alloc.bad_free_site, j);
    }
    for (i = 0; i < M_NIMG && !res->violated; i++)
	if (m->img[i].used)
	    sim_violation (res, "C20", "C20/model-inconsistent", "end", "slot %d still in use after the user dropped everything (refs %d, attached to %d)",
			   i, m->img[i].refs, m->img[i].is_alpha_of);
    sim_alloc.bad_free = 0;
    machine_free (m);
    if (!res->violated && sim_alloc.live_blocks)
    {
	const void *sites[4]; size_t sizes[4]; int ops[4];
	int c = sim_alloc_live_sites (sites, sizes, ops, 4);
	res->op_index = ops[0];
	sim_violation (res, "C20", "C20/leak", ops[0] >= 0 && ops[0] < sc->n_ops ? mop_names[sc->ops[ops[0]].kind] : "?",
		       "%d block(s) still allocated after the last reference to everything was dropped; first: %zu bytes allocated in op %d (site %p)",
		       c, sizes[0], ops[0], sites[0]);
    }
    sim_alloc.tracking = 0;
    arena_free_all ();
    sim_count ("faults_fired", faults);
    sim_count ("images_released", releases);
    sim_count ("ops_executed", sc->n_ops);
    res->hash = h;
    res->key = h;
    res->nontrivial = releases >= 3;
}

typedef struct { const scenario_t *sc; result_t *res; } c14_run_t;
static void c14_thread (void *p) { c14_run_t *e = p; execute_c14 (e->sc, e->res); }

static void
execute (const scenario_t *sc, const char *property, result_t *res)
{
    if (property && !strcmp (property, "C20")) execute_c20 (sc, res);
    else
    {
	/* on a thread of its own: the dispatch cache is thread-local, and a scenario must not start
	 * with the entries (and the implementation chain) of the scenario this process ran before it */
	c14_run_t e = { sc, res };
	run_on_fresh_thread (c14_thread, &e);
    }
}

/* ---------------------------------------------------------------- generators */

static void
gen_c14 (gen_t *g, rng_t *r, scenario_t *sc, int tier)
{
    int n_ops = (int)rng_range (r, 30, tier ? 140 : 100), i;
    int nsrc = (int)rng_range (r, 2, 4);
    static const int chains[] = { 0, 0, 0, 15, 16, 1, 4, 12, 31 };
    sc_set (sc, "cold_replica", rng_chance (r, 1, 4));
    sc_set (sc, "reissue", rng_chance (r, 1, 2));
    sc_set (sc, "chain", chains[rng_n (r, 9)]);
    /* pool: 0,1 destinations; 2.. sources/masks; later alpha-map candidates */
    gen_bits (g, 0, rng_chance (r, 2, 3) ? FC_FASTPATH : FC_ANY, 48, 10, 0x9);
    gen_bits (g, 1, FC_ANY, 32, 8, 0x9);
    for (i = 0; i < nsrc; i++) gen_source (g, 2 + i, rng_chance (r, 1, 2) ? FC_FASTPATH : FC_ANY, 24);
    gen_bits (g, 6, FC_ALPHA, 24, 10, 0x9);        /* alpha map candidates */
    gen_bits (g, 7, FC_ANY, 16, 8, 0x9);
    for (i = 0; i < n_ops; i++)
    {
	int roll = (int)rng_n (r, 100);
	int any = gen_find (g, 0, 1), bits = gen_find (g, 1, 1);
	int src = 2 + (int)rng_n (r, nsrc), dst = (int)rng_n (r, 2), mask = rng_chance (r, 1, 3) ? 2 + (int)rng_n (r, nsrc) : -1;
	if (any < 0) break;
	if (roll < 30)
	{
	    int rr = (int)rng_n (r, 10);
	    if (rr < 6) gen_composite (g, 1, src, mask, dst);
	    else if (rr < 7) gen_fill_boxes (g, dst, rng_chance (r, 1, 2), 0);
	    else if (rr < 9) { static const int tk[] = { MOP_COMPOSITE_TRAPS, MOP_COMPOSITE_TRIS }; gen_traps (g, tk[rng_n (r, 2)], src, dst); }
	    else gen_composite (g, 1, 6 + (int)rng_n (r, 2), mask, dst);
	}
	else if (roll < 33)
	{
	    /* use an image as mask, flip one of its boolean properties with nothing else in
	     * between, use it again: derived flags of the mask must follow */
	    int mk = 2 + (int)rng_n (r, nsrc);
	    int64_t a[6] = { 0, 0, 0, mk, (int64_t)rng_n (r, 4) };
	    static const int kinds[] = { MOP_SET_COMPONENT_ALPHA, MOP_SET_COMPONENT_ALPHA, MOP_SET_SOURCE_CLIPPING, MOP_SET_CLIENT_CLIP };
	    gen_composite (g, 1, src, mk, dst);
	    sc_addv (sc, kinds[rng_n (r, 4)], 5, a);
	    gen_composite (g, 1, src, mk, dst);
	    sc->ops[sc->n_ops - 1] = sc->ops[sc->n_ops - 3];       /* the very same request */
	}
	else if (roll < 38 && roll >= 36)
	{
	    /* a setter called twice with values that differ in ONE component, a use in between:
	     * "nothing changed" shortcuts must look at the whole value */
	    if (rng_chance (r, 1, 2))
	    {
		/* dither offset of a destination: only x or only y changes; a gradient goes through the wide
		 * pipeline, where dithering happens */
		int grad = -1, k;
		int64_t d[5] = { 0, 0, 0, dst, 1 + (int64_t)rng_n (r, 5) }, o[6] = { 0, 0, 0, dst, rng_range (r, -9, 9), rng_range (r, -9, 9) };
		for (k = 2; k < 2 + nsrc; k++) if (g->s[k].used && g->s[k].kind != MOP_BITS && g->s[k].kind != MOP_SOLID) grad = k;
		if (grad < 0) grad = src;
		sc_addv (sc, MOP_SET_DITHER, 5, d);
		sc_addv (sc, MOP_SET_DITHER_OFFSET, 6, o);
		gen_composite (g, 1, grad, -1, dst);
		o[rng_chance (r, 1, 2) ? 4 : 5] += rng_chance (r, 1, 2) ? 1 : 3;
		sc_addv (sc, MOP_SET_DITHER_OFFSET, 6, o);
		gen_composite (g, 1, grad, -1, dst);
		sc->ops[sc->n_ops - 1] = sc->ops[sc->n_ops - 3];
	    }
	    else
	    {
		/* a transform whose second version differs from the first in one entry only, often in the bottom row */
		int e;
		gen_transform (g, src, TC_ANY);
		gen_composite (g, 1, src, -1, dst);
		{ sim_op_t prev = sc->ops[sc->n_ops - 2]; sc_addv (sc, prev.kind, prev.n, prev.a); }     /* the same set_transform again ... */
		e = rng_chance (r, 1, 2) ? 6 + (int)rng_n (r, 3) : (int)rng_n (r, 9);
		if (sc->ops[sc->n_ops - 1].n >= M_PREFIX + 2 + 9)
		    sc->ops[sc->n_ops - 1].a[M_PREFIX + 2 + e] += e == 8 ? 65536 : (e >= 6 ? 97 : 4096);   /* ... with one entry moved */
		gen_composite (g, 1, src, -1, dst);
		sc->ops[sc->n_ops - 1] = sc->ops[sc->n_ops - 3];
	    }
	}
	else if (roll < 36)
	{
	    /* the same image gets a clip of several boxes, is used, gets another clip (often of
	     * fewer boxes, which fits the storage of the first) and is used again */
	    int img = rng_chance (r, 1, 2) ? dst : src;
	    gen_clip (g, img, 0);
	    gen_composite (g, 1, src, -1, dst);
	    gen_clip (g, img, 0);
	    gen_composite (g, 1, src, -1, dst);
	}
	else if (roll == 41)
	{
	    /* the "in use as an alpha map" bookkeeping: a map is attached, re-attached at another origin,
	     * released by detaching or by the owner's death - and must then accept a map of its own */
	    int map = 6 + (int)rng_n (r, 2), other = map == 6 ? 7 : 6;
	    if (g->s[src].used && g->s[src].kind == MOP_BITS && g->s[map].used && g->s[other].used)
	    {
		gen_alpha_map (g, src, map);
		gen_composite (g, 1, src, -1, dst);
		if (rng_chance (r, 1, 2)) gen_alpha_map (g, src, map);
		if (rng_chance (r, 1, 2)) gen_alpha_map (g, src, -1); else gen_unref (g, src);
		gen_alpha_map (g, map, other);
		gen_composite (g, 1, map, -1, dst);
		gen_alpha_map (g, map, -1);
	    }
	}
	else if (roll < 42) gen_transform (g, any, TC_ANY);
	else if (roll < 52) gen_filter (g, any, 1);
	else if (roll < 60) gen_repeat (g, any);
	else if (roll < 70) gen_clip (g, any, 1);
	else if (roll < 82) gen_misc_prop (g, any);
	else if (roll < 92 && bits >= 0)
	{
	    /* attach / detach / re-attach alpha maps, also in the refused shapes */
	    int owner = rng_chance (r, 1, 2) ? dst : gen_find (g, 0, 1);
	    int map = rng_chance (r, 1, 4) ? -1 : (rng_chance (r, 3, 4) ? 6 + (int)rng_n (r, 2) : bits);
	    if (owner >= 0) gen_alpha_map (g, owner, map);
	}
	else if (roll < 95)
	{
	    /* an alpha-map owner goes away while the map lives on, and comes back */
	    int fs;
	    if (g->s[7].used && g->s[7].refs > 0 && g->s[7].has_alpha >= 0 && rng_chance (r, 1, 2)) gen_unref (g, 7);
	    else if ((fs = gen_free_slot (g)) >= 0) { gen_bits (g, fs, FC_ANY, 16, 8, 0x9); if (g->s[6].used) gen_alpha_map (g, fs, 6); }
	}
	else
	{
	    int64_t a[6] = { 0, 0, 0, bits >= 0 ? bits : 0, (int64_t)rng_u64 (r) >> 20 };
	    sc_addv (sc, MOP_SCRIBBLE, 5, a);
	}
    }
}

/* glyph-cache churn: fill a (small) table while frozen, remove most of it so that
 * tombstones pile up, thaw (which may dump the table), and use the cache again */
static void
gen_c20_glyph_churn (gen_t *g, rng_t *r, scenario_t *sc)
{
    int rounds = (int)rng_range (r, 1, 3), k, i, c = 0;
    gen_bits (g, 0, FC_ALPHA, 8, 8, 0);
    gen_bits (g, 1, FC_32, 8, 8, 0);
    if (rng_chance (r, 1, 2)) gen_destroy_cb (g, 0);
    gen_glyph_op (g, MOP_GC_CREATE, c, 0, 0);
    for (k = 0; k < rounds; k++)
    {
	int n_ins = (int)rng_range (r, 6, 15), n_rem;
	int64_t a[12];
	gen_glyph_op (g, MOP_GC_FREEZE, c, 0, 0);
	for (i = 0; i < n_ins; i++)
	{
	    /* distinct keys, consecutive sums: neighbouring slots, so that removals leave tombstones */
	    int64_t b[9] = { 0, 0, 0, c, i % 4, i, 0, 0, (int64_t)rng_n (r, 2) };
	    sc_addv (sc, MOP_GC_INSERT, 9, b);
	}
	n_rem = (int)rng_range (r, n_ins / 2, n_ins);
	for (i = 0; i < n_rem; i++)
	{
	    a[0] = a[1] = a[2] = 0; a[3] = c; a[4] = i % 4; a[5] = i;
	    sc_addv (sc, MOP_GC_REMOVE, 6, a);
	}
	gen_glyph_op (g, MOP_GC_THAW, c, 0, 0);
	if (rng_chance (r, 1, 2)) gen_composite (g, 1, 1, -1, 0);
    }
    if (rng_chance (r, 1, 2)) gen_glyph_op (g, MOP_GC_DESTROY, c, 0, 0);
}

static void
gen_c20 (gen_t *g, rng_t *r, scenario_t *sc, int tier)
{
    int n_ops = (int)rng_range (r, 20, tier ? 90 : 60), i;
    if (rng_chance (r, 1, 6)) { gen_c20_glyph_churn (g, r, sc); n_ops /= 3; }
    for (i = 0; i < n_ops; i++)
    {
	int roll = (int)rng_n (r, 100);
	int any = gen_find (g, 0, 1), bits = gen_find (g, 1, 1), fs = gen_free_slot (g);
	if (roll < 18 || any < 0)
	{
	    if (fs < 0) { if (any >= 0) gen_unref (g, any); continue; }
	    if (rng_chance (r, 1, 12))
	    {
		/* a creation the library has to refuse: nothing may be left behind */
		int64_t a[13] = { 0, 0, 0, fs, (int64_t)rng_n (r, 40), rng_range (r, 1, 24), rng_range (r, 1, 8), 0, 0, 0, 0, 0, (int64_t)rng_n (r, 3) };
		sc_addv (sc, MOP_BITS_REFUSED, 13, a);
		continue;
	    }
	    switch (rng_n (r, 6))
	    {
	    case 0: gen_solid (g, fs); break;
	    case 1: gen_gradient (g, fs); break;
	    default: gen_bits (g, fs, FC_ANY, 24, 8, 0xf); break;
	    }
	    if (rng_chance (r, 2, 3)) gen_destroy_cb (g, fs);
	}
	else if (roll < 26) gen_ref (g, any);
	else if (roll < 46) gen_unref (g, any);
	else if (roll < 52) gen_destroy_cb (g, any);
	else if (roll < 70 && bits >= 0)
	{
	    int owner = gen_find (g, 0, 1), map = rng_chance (r, 1, 5) ? -1 : gen_find (g, 1, 1);
	    if (rng_chance (r, 1, 10)) map = owner;          /* self */
	    /* re-attach the map the owner already has (new origin), also after the user let go of it */
	    if (owner >= 0 && g->s[owner].has_alpha >= 0 && rng_chance (r, 1, 3)) map = g->s[owner].has_alpha;
	    gen_alpha_map (g, owner, map);
	}
	else if (roll < 76) gen_clip (g, any, 1);
	else if (roll < 82) gen_transform (g, any, TC_ANY);
	else if (roll < 88) gen_filter (g, any, 1);
	else if (roll < 97)
	{
	    int c = (int)rng_n (r, M_NGC);
	    if (!g->gc_exists[c]) gen_glyph_op (g, MOP_GC_CREATE, c, 0, 0);
	    else switch (rng_n (r, 7))
	    {
	    case 0: case 1: case 2: if (bits >= 0) gen_glyph_op (g, MOP_GC_INSERT, c, bits, 0); break;
	    case 3: case 4: gen_glyph_op (g, MOP_GC_REMOVE, c, 0, 0); break;
	    case 5: gen_glyph_op (g, rng_chance (r, 1, 2) ? MOP_GC_FREEZE : MOP_GC_THAW, c, 0, 0); break;
	    default: gen_glyph_op (g, MOP_GC_DESTROY, c, 0, 0); break;
	    }
	}
	else if (bits >= 0 && any >= 0 && bits != any) gen_composite (g, 1, any, -1, bits);
    }
}

static void
generate (uint64_t seed, int tier, const char *property, scenario_t *sc)
{
    rng_t r;
    gen_t g;
    int c20 = property && !strcmp (property, "C20");
    rng_seed (&r, seed, 4);
    gen_init (&g, &r, sc, rng_chance (&r, 1, 2) ? 0 : (int)rng_range (&r, 2, 10), 3);
    if (c20) gen_c20 (&g, &r, sc, tier);
    else gen_c14 (&g, &r, sc, tier);
}

static const world_t world = { "hist", mop_names, MOP_N, generate, execute, chains_init };

int
main (int argc, char **argv)
{
    return sim_main (argc, argv, &world);
}
