/* World `cfg` — the configuration axis: which of general / fast / mmx /
 * sse2 / ssse3 (+ wholeops) are in the delegation chain.  Every chain is
 * built by the library's own selection code from PIXMAN_DISABLE and every
 * (scenario, chain) executes on a fresh pthread, i.e. with a zeroed
 * thread-local dispatch cache, from identical initial buffers at identical
 * (seed-chosen) alignment.
 *
 *   C02: all 32 chains must leave the same defined bits in every destination.
 *   C19: pixman_fill / pixman_blt against an independent bit-exact reference,
 *        fill_boxes / fill_rectangles against compositing a solid image,
 *        on every chain.
 *   C04: guard pages, poisoned canaries, accessor interval checks, ASan; pixel
 *        values are deliberately not compared.
 */
#include "machine.h"
#include "gen.h"

#define REF_CHAIN 15     /* fast, mmx, sse2, ssse3 disabled: general only */

typedef struct
{
    const scenario_t *sc;
    int chain, guarded, mode;          /* mode: 2 = C02, 4 = C04, 19 = C19 */
    uint64_t *post, *pre;              /* per op: digest of the destination after / before */
    int *ret, *exec, *feat;
    result_t *res;
    long draws;
} chain_run_t;

static uint64_t
dst_digest (machine_t *m, int slot, int slot2)
{
    uint64_t h = machine_hash_slot (m, slot, FNV_INIT);
    if (slot2 >= 0) h = machine_hash_slot (m, slot2, h);
    return h;
}

/* ------------------------------------------------ C19 references */

/* set exactly the addressed bits: x, width in pixels of `bpp` bits */
static void
ref_fill (uint8_t *row0, int stride, int bpp, int x, int y, int w, int h, uint32_t filler)
{
    int i, j, b;
    for (j = y; j < y + h; j++)
    {
	uint8_t *row = row0 + (long)j * stride;
	for (i = x; i < x + w; i++)
	    for (b = 0; b < bpp; b++)
	    {
		long bit = (long)i * bpp + b;
		/* little endian: bit k of a pixel is bit (k mod 8) of byte k/8, pixels packed LSB first */
		int v = (filler >> (b % 32)) & 1;
		if (bpp == 1) v = filler & 1;
		if (v) row[bit >> 3] |= (uint8_t)(1u << (bit & 7));
		else row[bit >> 3] &= (uint8_t)~(1u << (bit & 7));
	    }
    }
}

static void
ref_blt (const uint8_t *s0, int sstride, uint8_t *d0, int dstride, int bpp, int sx, int sy, int dx, int dy, int w, int h)
{
    int i, j, b;
    for (j = 0; j < h; j++)
    {
	const uint8_t *srow = s0 + (long)(sy + j) * sstride;
	uint8_t *drow = d0 + (long)(dy + j) * dstride;
	for (i = 0; i < w; i++)
	    for (b = 0; b < bpp; b++)
	    {
		long sb = (long)(sx + i) * bpp + b, db = (long)(dx + i) * bpp + b;
		int v = (srow[sb >> 3] >> (sb & 7)) & 1;
		if (v) drow[db >> 3] |= (uint8_t)(1u << (db & 7));
		else drow[db >> 3] &= (uint8_t)~(1u << (db & 7));
	    }
    }
}

#define AA(i) ((i) < n ? a[(i)] : 0)

/* C19: execute op on twin machine B by its reference meaning.  `ret` is what
 * the real call returned on machine A. */
static void
reference_step (machine_t *b, const sim_op_t *op, int ret)
{
    const int64_t *a = op->a + M_PREFIX;
    int n = op->n - M_PREFIX;
    machine_t *prev = machine_current;
    machine_current = b;
    if (b->chain >= 0) chain_install (b->chain);
    switch (op->kind)
    {
    case MOP_FILL:
    {
	mslot_t *s = &b->img[sim_mod (AA (0), M_NIMG)];
	int bpp = PIXMAN_FORMAT_BPP (s->fmt);
	int x = (int)sim_clamp (AA (1), 0, s->w), y = (int)sim_clamp (AA (2), 0, s->h);
	int w = (int)sim_clamp (AA (3), 0, s->w - x), h = (int)sim_clamp (AA (4), 0, s->h - y);
	uint8_t *row0 = (uint8_t *)pixman_image_get_data (s->img);
	/* raw bits of a float image are not something a 32-bit filler can express */
	if (ret && bpp <= 32) ref_fill (row0, s->stride, bpp, x, y, w, h, (uint32_t)AA (5));
	break;
    }
    case MOP_BLT:
    {
	mslot_t *s = &b->img[sim_mod (AA (0), M_NIMG)], *d = &b->img[sim_mod (AA (1), M_NIMG)];
	int sx = (int)sim_clamp (AA (2), 0, s->w), sy = (int)sim_clamp (AA (3), 0, s->h);
	int dx = (int)sim_clamp (AA (4), 0, d->w), dy = (int)sim_clamp (AA (5), 0, d->h);
	int w = (int)sim_clamp (AA (6), 0, s->w - sx), h = (int)sim_clamp (AA (7), 0, s->h - sy);
	if (w > d->w - dx) w = d->w - dx;
	if (h > d->h - dy) h = d->h - dy;
	if (ret && PIXMAN_FORMAT_BPP (s->fmt) == PIXMAN_FORMAT_BPP (d->fmt))
	    ref_blt ((uint8_t *)pixman_image_get_data (s->img), s->stride, (uint8_t *)pixman_image_get_data (d->img), d->stride,
		     PIXMAN_FORMAT_BPP (s->fmt), sx, sy, dx, dy, w, h);
	break;
    }
    case MOP_FILL_BOXES:
    case MOP_FILL_RECTS:
    {
	int dst = (int)sim_mod (AA (1), M_NIMG), cnt = (int)sim_clamp (AA (6), 0, 20), i;
	pixman_color_t c;
	pixman_image_t *solid;
	c.alpha = (uint16_t)sim_mod (AA (2), 65536); c.red = (uint16_t)sim_mod (AA (3), 65536);
	c.green = (uint16_t)sim_mod (AA (4), 65536); c.blue = (uint16_t)sim_mod (AA (5), 65536);
	solid = pixman_image_create_solid_fill (&c);
	if (!solid) break;
	for (i = 0; i < cnt; i++)
	{
	    int64_t x1, y1, x2, y2;
	    if (op->kind == MOP_FILL_BOXES)
	    {
		x1 = sim_clamp (AA (7 + 4 * i), -40000, 40000); y1 = sim_clamp (AA (8 + 4 * i), -40000, 40000);
		x2 = sim_clamp (AA (9 + 4 * i), -40000, 40000); y2 = sim_clamp (AA (10 + 4 * i), -40000, 40000);
		if (x2 < x1) x2 = x1;
		if (y2 < y1) y2 = y1;
	    }
	    else
	    {
		x1 = (int16_t)sim_clamp (AA (7 + 4 * i), -32768, 32767); y1 = (int16_t)sim_clamp (AA (8 + 4 * i), -32768, 32767);
		x2 = x1 + (uint16_t)sim_clamp (AA (9 + 4 * i), 0, 65535); y2 = y1 + (uint16_t)sim_clamp (AA (10 + 4 * i), 0, 65535);
	    }
	    pixman_image_composite32 (sim_ops[sim_mod (AA (0), sim_n_ops)], solid, NULL, b->img[dst].img, 0, 0, 0, 0,
				      (int32_t)x1, (int32_t)y1, (int32_t)(x2 - x1), (int32_t)(y2 - y1));
	}
	pixman_image_unref (solid);
	break;
    }
    }
    machine_current = prev;
}


/* features of a request that known findings are keyed on */
#define FEAT_GRADIENT_TILED 2  /* gradient mask with a NORMAL-repeat bits source (request cut into strips by the tiled-repeat fast path) */
#define FEAT_WIDE_SOLID 1     /* a source/mask operand is a 1x1 repeating bits image of a > 8-bit-per-channel format */

static int
request_features (machine_t *m, const sim_op_t *op)
{
    int f = 0, k;
    int idx[2] = { -1, -1 };
    if (op->kind == MOP_COMPOSITE && op->n >= M_PREFIX + 3) { idx[0] = M_PREFIX + 1; idx[1] = M_PREFIX + 2; }
    else if ((op->kind == MOP_COMPOSITE_TRAPS || op->kind == MOP_COMPOSITE_TRIS || op->kind == MOP_GLYPHS) && op->n >= M_PREFIX + 2) idx[0] = M_PREFIX + 1;
    for (k = 0; k < 2; k++)
    {
	const mslot_t *s;
	if (idx[k] < 0 || op->a[idx[k]] < 0) continue;
	s = &m->img[sim_mod (op->a[idx[k]], M_NIMG)];
	if (s->used && s->kind == MOP_BITS && s->img)
	{
	    pixman_format_code_t fm = s->fmt;
	    int wide = PIXMAN_FORMAT_BPP (fm) > 32 || PIXMAN_FORMAT_R (fm) > 8 || PIXMAN_FORMAT_A (fm) > 8 || PIXMAN_FORMAT_TYPE (fm) == PIXMAN_TYPE_ARGB_SRGB;
	    /* the dispatcher hands such an operand to the 8-bit fast paths as a solid
	     * colour (1x1 repeating) or drops it (opaque mask), while the general
	     * path sees a wide format and composites in floating point */
	    if (wide && s->w == 1 && s->h == 1 && s->img->common.repeat != PIXMAN_REPEAT_NONE) f |= FEAT_WIDE_SOLID;
	    if (wide && k == 1 && (s->img->common.flags & FAST_PATH_IS_OPAQUE)) f |= FEAT_WIDE_SOLID;
	}
    }
    /* fast_composite_tiled_repeat cuts a request with a NORMAL-repeat source
     * into strips; a gradient in the other operand is then evaluated
     * incrementally (in doubles) from a different start in each strip */
    if (op->kind == MOP_COMPOSITE && op->n >= M_PREFIX + 3 && op->a[M_PREFIX + 2] >= 0)
    {
	const mslot_t *s0 = &m->img[sim_mod (op->a[M_PREFIX + 1], M_NIMG)], *s1 = &m->img[sim_mod (op->a[M_PREFIX + 2], M_NIMG)];
	if (s0->used && s1->used && s0->img && s1->img && s0->kind == MOP_BITS && s0->img->common.repeat == PIXMAN_REPEAT_NORMAL &&
	    (s1->kind == MOP_LINEAR || s1->kind == MOP_RADIAL || s1->kind == MOP_CONICAL))
	    f |= FEAT_GRADIENT_TILED;
    }
    return f;
}

/* ------------------------------------------------ one chain, one thread */

static void
chain_thread (void *p)
{
    chain_run_t *cr = p;
    const scenario_t *sc = cr->sc;
    machine_t *m = machine_new (0, cr->guarded, cr->chain), *twin = NULL;
    int j;
    if (cr->mode == 19) twin = machine_new (0, cr->guarded, cr->chain);
    m->allow_huge = cr->mode == 4;
    for (j = 0; j < sc->n_ops && !cr->res->violated; j++)
    {
	mstep_t st, st2;
	const sim_op_t *op = &sc->ops[j];
	int is_fillish = op->kind == MOP_FILL || op->kind == MOP_BLT || op->kind == MOP_FILL_BOXES || op->kind == MOP_FILL_RECTS;
	uint64_t pre = 0;
	if ((op->kind == MOP_FILL || op->kind == MOP_BLT) && cr->mode != 4)
	{
	    /* destination slot is argument 0 (fill) / 1 (blt) */
	    int d = (int)sim_mod (op->n > M_PREFIX + (op->kind == MOP_BLT) ? op->a[M_PREFIX + (op->kind == MOP_BLT)] : 0, M_NIMG);
	    pre = dst_digest (m, d, m->img[d].has_alpha);
	}
	machine_step (m, op, j, &st);
	cr->feat[j] = request_features (m, op);
	cr->exec[j] = st.executed;
	cr->ret[j] = st.ret;
	if (st.executed && st.is_draw)
	{
	    cr->draws++;
	    if (cr->mode != 4)
	    {
		cr->post[j] = dst_digest (m, st.dst_slot, st.dst2_slot);
		cr->pre[j] = pre;
	    }
	}
	if (sim_verbose && getenv ("PXSIM_DUMP_CHAINS") && st.executed && st.is_draw && PIXMAN_FORMAT_BPP (m->img[st.dst_slot].fmt) >= 32 &&
	    (cr->chain == REF_CHAIN || cr->chain == atoi (getenv ("PXSIM_DUMP_CHAINS"))))
	{
	    int x, y;
	    const mslot_t *d = &m->img[st.dst_slot];
	    for (y = 0; y < d->h && y < 4; y++)
	    {
		fprintf (stderr, "DUMP op %d chain %2d row %d:", j, cr->chain, y);
		for (x = 0; x < d->w && x < 70; x++) fprintf (stderr, " %08x", ((uint32_t *)(d->lowest + (long)y * abs (d->stride)))[x]);
		fprintf (stderr, "\n");
	    }
	}
	if (cr->mode == 2 && st.executed && !st.ret && (op->kind == MOP_FILL || op->kind == MOP_BLT))
	{
	    /* the primitive refused (no implementation in this chain owns it, or
	     * unsupported depth): the caller falls back to its own loop, so that
	     * the chains stay comparable afterwards */
	    reference_step (m, op, 1);
	}
	if (cr->mode == 2 && st.executed && st.is_draw)
	{
	    machine_normalise_slot (m, st.dst_slot);
	    machine_normalise_slot (m, st.dst2_slot);
	}
	if (m->own_violation && cr->mode == 4)
	{
	    cr->res->op_index = j;
	    sim_violation (cr->res, "C04", "C04/own-allocation-smaller-than-image", mop_names[op->kind], "chain '%s': %s", chain_name (cr->chain), m->own_detail);
	}
	if (m->acc_violation && cr->mode == 4)
	{
	    cr->res->op_index = j;
	    sim_violation (cr->res, "C04", "C04/accessor-outside-storage", mop_names[op->kind], "chain '%s': %s", chain_name (cr->chain), m->acc_detail);
	}
	if (cr->guarded && st.executed && machine_check_canaries (m))
	{
	    cr->res->op_index = j;
	    sim_violation (cr->res, "C04", "C04/write-outside-storage", mop_names[op->kind], "chain '%s': %s", chain_name (cr->chain), m->canary_detail);
	}
	if (twin)
	{
	    if (is_fillish && st.executed) { reference_step (twin, op, st.ret); }
	    else machine_step (twin, op, j, &st2);
	    if (is_fillish && st.executed && !cr->res->violated)
	    {
		long off;
		const char *what = op->kind == MOP_FILL ? "fill" : op->kind == MOP_BLT ? "blt" : "fill_boxes";
		if ((op->kind == MOP_FILL_BOXES || op->kind == MOP_FILL_RECTS) && !st.ret)
		{
		    cr->res->op_index = j;
		    sim_violation (cr->res, "C19", "C19/fill_boxes-returns-false", mop_names[op->kind], "chain '%s': %s returned FALSE", chain_name (cr->chain), mop_names[op->kind]);
		}
		off = machine_compare_slot (m, twin, st.dst_slot);
		if (off < 0 && st.dst2_slot >= 0 && machine_compare_slot (m, twin, st.dst2_slot) >= 0) off = 0;
		if (off >= 0 && !cr->res->violated)
		{
		    char cls[64], site[96];
		    const mslot_t *d = &m->img[st.dst_slot];
		    cr->res->op_index = j;
		    snprintf (cls, sizeof cls, "C19/%s-differs-from-%s", what, op->kind <= MOP_FILL_RECTS && op->kind >= MOP_FILL_BOXES ? "compositing" : "reference");
		    snprintf (site, sizeof site, "%s%s%s", mop_names[op->kind], d->has_alpha >= 0 ? "+alpha-map" : "",
			      st.ret ? "" : "+returned-false");
		    sim_violation (cr->res, "C19", cls, site,
				   "chain '%s': op %d (%s) ret=%d on a %dx%d %d-bpp destination (format %08x) differs from its reference meaning at byte %ld",
				   chain_name (cr->chain), j, mop_names[op->kind], st.ret, d->w, d->h, PIXMAN_FORMAT_BPP (d->fmt), (unsigned)d->fmt, off);
		}
	    }
	}
    }
    if (twin) machine_free (twin);
    machine_free (m);
}

static void
execute (const scenario_t *sc, const char *property, result_t *res)
{
    int mode = property && !strcmp (property, "C04") ? 4 : property && !strcmp (property, "C19") ? 19 : 2;
    int n = sc->n_ops, c, j;
    uint64_t *post[N_CHAINS], *pre[N_CHAINS];
    int *ret[N_CHAINS], *ex[N_CHAINS], *feat[N_CHAINS];
    uint64_t h = FNV_INIT;
    uint32_t chain_mask = (uint32_t)sc_get (sc, "chains", -1);     /* bit c set = run chain c */
    long draws = 0;
    int nchains = 0;

    memset (post, 0, sizeof post);
    for (c = 0; c < N_CHAINS && !res->violated; c++)
    {
	chain_run_t cr;
	if (!(chain_mask & (1u << c)) && c != REF_CHAIN) continue;
	nchains++;
	post[c] = calloc (n + 1, sizeof (uint64_t)); pre[c] = calloc (n + 1, sizeof (uint64_t));
	ret[c] = calloc (n + 1, sizeof (int)); ex[c] = calloc (n + 1, sizeof (int)); feat[c] = calloc (n + 1, sizeof (int));
	cr.sc = sc; cr.chain = c; cr.guarded = mode == 4; cr.mode = mode;
	cr.post = post[c]; cr.pre = pre[c]; cr.ret = ret[c]; cr.exec = ex[c]; cr.feat = feat[c]; cr.res = res; cr.draws = 0;
	run_on_fresh_thread (chain_thread, &cr);
	arena_free_all ();
	draws += cr.draws;
	for (j = 0; j < n; j++) h = fnv_u64 (h, post[c][j] ^ (uint64_t)ret[c][j]);
    }

    if (sim_verbose)
	for (j = 0; j < n; j++)
	    for (c = 0; c < N_CHAINS; c++)
		if (post[c])
		    fprintf (stderr, "op %d %-14s chain %2d exec=%d ret=%d pre=%016llx post=%016llx\n", j, mop_names[sc->ops[j].kind], c, ex[c][j], ret[c][j],
			     (unsigned long long)pre[c][j], (unsigned long long)post[c][j]);
    if (mode == 2 && !res->violated)
    {
	for (c = 0; c < N_CHAINS && !res->violated; c++)
	{
	    if (!post[c] || c == REF_CHAIN) continue;
	    for (j = 0; j < n; j++)
	    {
		const sim_op_t *op = &sc->ops[j];
		int rawop = op->kind == MOP_FILL || op->kind == MOP_BLT;
		if (ex[c][j] != ex[REF_CHAIN][j])
		{
		    res->op_index = j;
		    sim_violation (res, "C02", "C02/chains-disagree", mop_names[op->kind], "op %d (%s) executed=%d under chain '%s' but %d under general-only",
				   j, mop_names[op->kind], ex[c][j], chain_name (c), ex[REF_CHAIN][j]);
		    break;
		}
		if (!ex[c][j]) continue;
		if (rawop)
		{
		    /* either the identical effect or failure having changed nothing */
		    int k, agree = -1;
		    if (!ret[c][j])
		    {
			if (post[c][j] != pre[c][j])
			{
			    res->op_index = j;
			    sim_violation (res, "C02", "C02/raw-op-failed-but-wrote", mop_names[op->kind], "%s returned FALSE under chain '%s' but changed the buffer", mop_names[op->kind], chain_name (c));
			    break;
			}
			continue;
		    }
		    for (k = 0; k < c; k++) if (post[k] && ex[k][j] && ret[k][j]) { agree = k; break; }
		    if (agree >= 0 && post[agree][j] != post[c][j])
		    {
			res->op_index = j;
			sim_violation (res, "C02", "C02/chains-disagree", mop_names[op->kind], "%s succeeded under chains '%s' and '%s' with different results (op %d)",
				       mop_names[op->kind], chain_name (agree), chain_name (c), j);
			break;
		    }
		    continue;
		}
		if (post[c][j] != post[REF_CHAIN][j] || ret[c][j] != ret[REF_CHAIN][j])
		{
		    char site[96];
		    res->op_index = j;
		    snprintf (site, sizeof site, "%s%s", mop_names[op->kind], (feat[REF_CHAIN][j] & FEAT_WIDE_SOLID) ? ":wide-format-operand-solid-or-elided" :
			      (feat[REF_CHAIN][j] & FEAT_GRADIENT_TILED) ? ":gradient-mask-with-tiled-repeat-source" : "");
		    sim_violation (res, "C02", "C02/chains-disagree", site,
				   "op %d (%s): destination under chain '%s' (disabled list) differs from general-only (ret %d vs %d)",
				   j, mop_names[op->kind], chain_name (c), ret[c][j], ret[REF_CHAIN][j]);
		    break;
		}
	    }
	}
    }
    for (c = 0; c < N_CHAINS; c++) if (post[c]) { free (post[c]); free (pre[c]); free (ret[c]); free (ex[c]); free (feat[c]); }
    sim_count ("chain_executions", nchains);
    sim_count ("drawing_requests_x_chains", draws);
    sim_count ("ops_executed", (long)n * nchains);
    res->hash = h;
    {
	/* what makes two runs distinct: the explicit scenario (C04 records no pixel digests) */
	uint64_t k = h;
	for (j = 0; j < n; j++) k = fnv_bytes (fnv_u64 (k, (uint64_t)sc->ops[j].kind), sc->ops[j].a, (size_t)sc->ops[j].n * sizeof (int64_t));
	res->key = k;
    }
    res->nontrivial = draws >= nchains;     /* at least one request actually drew on every chain run */
}

/* ---------------------------------------------------------------- generators */

static void
add_props (gen_t *g, rng_t *r, int slot, int is_source, int extreme)
{
    if (is_source)
    {
	if (rng_chance (r, 1, 2)) gen_transform (g, slot, TC_ANY);
	if (rng_chance (r, 1, 2)) gen_filter (g, slot, 1);
	if (rng_chance (r, 2, 3)) gen_repeat (g, slot);
	if (rng_chance (r, 1, 6)) { gen_clip (g, slot, 0); { int64_t a[6] = { 0, 0, 0, slot, 1 }; sc_addv (g->sc, MOP_SET_SOURCE_CLIPPING, 5, a); } }
	if (rng_chance (r, 1, 6)) { int64_t a[6] = { 0, 0, 0, slot, 1 + (int64_t)rng_n (r, 3) }; sc_addv (g->sc, MOP_SET_COMPONENT_ALPHA, 5, a); }
    }
    else
    {
	if (rng_chance (r, 1, 3)) gen_clip (g, slot, 0);
    }
}

/* a flavour aimed at the scaled nearest / bilinear fast paths of every
 * implementation: 8888 / 0565 source under a pure scale, NEAREST or BILINEAR,
 * any repeat, no mask / a8 mask with holes / solid mask, SRC OVER ADD */
static void
gen_c02_scaled (gen_t *g, rng_t *r, scenario_t *sc)
{
    static const pixman_format_code_t sf[] = { PIXMAN_a8r8g8b8, PIXMAN_x8r8g8b8, PIXMAN_r5g6b5, PIXMAN_a8r8g8b8, PIXMAN_a8 };
    static const pixman_format_code_t df[] = { PIXMAN_a8r8g8b8, PIXMAN_x8r8g8b8, PIXMAN_r5g6b5, PIXMAN_a8r8g8b8 };
    static const int ops[] = { 1, 3, 3, 12, 8 };       /* SRC OVER OVER ADD OUT_REVERSE */
    int i, n_req = (int)rng_range (r, 3, 8), fi[2], k;
    sc_set (sc, "chains", 0xffffffffll);
    for (k = 0; k < 2; k++)
	for (fi[k] = 0; fi[k] < sim_n_formats; fi[k]++)
	    if (sim_formats[fi[k]] == (k ? df[rng_n (r, 4)] : sf[rng_n (r, 5)])) break;
    gen_bits_exact (g, 0, fi[1], gen_pick_size (g, 160), (int)rng_range (r, 1, 6), (int)rng_n (r, 2), rng_chance (r, 1, 6), (int)rng_n (r, 16), 0);
    gen_bits_exact (g, 2, fi[0], gen_pick_size (g, 64), (int)rng_range (r, 1, 24), (int)rng_n (r, 2), rng_chance (r, 1, 6), (int)rng_n (r, 16), 0);
    /* a8 mask with holes: fill_bytes already mixes runs of 0x00 and 0xff in */
    for (k = 0; k < sim_n_formats; k++) if (sim_formats[k] == PIXMAN_a8) break;
    /* as large as the destination, or exactly as large as the source (then a mask that is
     * sampled like the source has the very same flag word as the source) */
    if (rng_chance (r, 1, 2)) gen_bits_exact (g, 3, k, g->s[0].w, g->s[0].h, (int)rng_n (r, 2), 0, (int)rng_n (r, 16), 0);
    else gen_bits_exact (g, 3, k, g->s[2].w, g->s[2].h, (int)rng_n (r, 2), 0, (int)rng_n (r, 16), 0);
    gen_solid (g, 4);
    {
	int64_t a[16] = { 0, 0, 0, 2, 0, 65536, 0, 0, 0, 65536, 0, 0, 0, 65536 };
	int64_t f[9] = { 0, 0, 0, 2, PIXMAN_FILTER_NEAREST, 1, 1, 0, 0 };
	int64_t rp[5] = { 0, 0, 0, 2, 0 };
	for (i = 0; i < n_req; i++)
	{
	    int mask = rng_chance (r, 1, 3) ? -1 : rng_chance (r, 3, 4) ? 3 : 4;
	    if (i == 0 || rng_chance (r, 1, 2))
	    {
		/* a new sampling state for the source; otherwise the one of the request before stays
		 * (dispatch-cache hits, and misses that differ in one flag only) */
		a[3] = f[3] = rp[3] = 2;
		f[4] = rng_chance (r, 1, 2) ? PIXMAN_FILTER_NEAREST : PIXMAN_FILTER_BILINEAR;
		rp[4] = rng_n (r, 4);
		a[5] = rng_chance (r, 1, 5) ? 65536 : rng_range (r, 6000, 5 * 65536);       /* x scale: non-integer steps mostly */
		a[9] = rng_chance (r, 1, 3) ? 65536 : rng_range (r, 6000, 5 * 65536);
		a[7] = rng_range (r, -8 * 65536, 40 * 65536); a[10] = rng_range (r, -4 * 65536, 12 * 65536);
		sc_addv (sc, MOP_SET_TRANSFORM, 14, a);
		/* the separable-convolution fetchers of the fast implementation serve exactly these formats */
		if (rng_chance (r, 1, 5)) gen_filter (g, 2, 2); else sc_addv (sc, MOP_SET_FILTER, 9, f);
		sc_addv (sc, MOP_SET_REPEAT, 5, rp);
	    }
	    switch (rng_n (r, 4))
	    {
	    case 0:
		/* the a8 mask sampled exactly like the source: equal flag words for source and mask */
		a[3] = f[3] = rp[3] = 3;
		sc_addv (sc, MOP_SET_TRANSFORM, 14, a); sc_addv (sc, MOP_SET_FILTER, 9, f); sc_addv (sc, MOP_SET_REPEAT, 5, rp);
		a[3] = f[3] = rp[3] = 2;
		break;
	    case 1:
	    {
		int64_t t0[14] = { 0, 0, 0, 3, 1 }, f0[9] = { 0, 0, 0, 3, PIXMAN_FILTER_NEAREST, 1, 1, 0, 0 }, r0[5] = { 0, 0, 0, 3, 0 };
		sc_addv (sc, MOP_SET_TRANSFORM, 14, t0); sc_addv (sc, MOP_SET_FILTER, 9, f0); sc_addv (sc, MOP_SET_REPEAT, 5, r0);
		break;
	    }
	    default: break;
	    }
	    gen_composite (g, 0, 2, mask, 0);
	    sc->ops[sc->n_ops - 1].a[M_PREFIX] = ops[rng_n (r, 5)];
	    if (rng_chance (r, 1, 2))
	    {
		/* same offsets for source and mask, full destination */
		sim_op_t *op = &sc->ops[sc->n_ops - 1];
		op->a[M_PREFIX + 6] = op->a[M_PREFIX + 4]; op->a[M_PREFIX + 7] = op->a[M_PREFIX + 5];
		op->a[M_PREFIX + 8] = op->a[M_PREFIX + 9] = 0; op->a[M_PREFIX + 10] = g->s[0].w; op->a[M_PREFIX + 11] = g->s[0].h;
	    }
	}
    }
}

/* the text-rendering shape: a solid colour through a mask (a8, a1, component-alpha 8888)
 * onto every destination format that has a fast path somewhere; colours from the edges
 * of the value range, also ones that are not premultiplied (alpha 0 with colour left) */
static void
gen_c02_solid_mask (gen_t *g, rng_t *r, scenario_t *sc)
{
    static const pixman_format_code_t mf[] = { PIXMAN_a8, PIXMAN_a8, PIXMAN_a1, PIXMAN_a8r8g8b8, PIXMAN_a8b8g8r8, PIXMAN_a4 };
    static const pixman_format_code_t df[] = { PIXMAN_a8r8g8b8, PIXMAN_x8r8g8b8, PIXMAN_a8b8g8r8, PIXMAN_x8b8g8r8, PIXMAN_r5g6b5, PIXMAN_b5g6r5,
					       PIXMAN_a8, PIXMAN_r8g8b8, PIXMAN_b8g8r8a8, PIXMAN_a1r5g5b5, PIXMAN_a4r4g4b4, PIXMAN_a1 };
    static const int64_t edge[] = { 0, 0, 65535, 65535, 0x8000, 0x00ff, 0xff00, 0x0100, 0x7fff, 0xfeff };
    static const int ops[] = { 3, 3, 3, 12, 12, 1, 8, 5, 4, 6 };    /* OVER x3 ADD x2 SRC OUT_REVERSE IN OVER_REVERSE IN_REVERSE */
    int i, k, n_req = (int)rng_range (r, 4, 10), fi[2];
    pixman_format_code_t want[2];
    sc_set (sc, "chains", 0xffffffffll);
    want[0] = df[rng_n (r, 12)]; want[1] = mf[rng_n (r, 6)];
    for (k = 0; k < 2; k++) for (fi[k] = 0; fi[k] < sim_n_formats - 1; fi[k]++) if (sim_formats[fi[k]] == want[k]) break;
    gen_bits_exact (g, 0, fi[0], gen_pick_size (g, 160), (int)rng_range (r, 1, 5), (int)rng_n (r, 2), rng_chance (r, 1, 6), (int)rng_n (r, 16), 0);
    gen_bits_exact (g, 3, fi[1], g->s[0].w + (int)rng_n (r, 3), g->s[0].h, (int)rng_n (r, 2), 0, (int)rng_n (r, 16), 0);
    if (PIXMAN_FORMAT_RGB (want[1]) && rng_chance (r, 2, 3)) { int64_t a[5] = { 0, 0, 0, 3, 1 + (int64_t)rng_n (r, 3) }; sc_addv (sc, MOP_SET_COMPONENT_ALPHA, 5, a); }
    for (i = 0; i < n_req; i++)
    {
	int slot = 4 + (i % 4);
	int64_t c[8] = { 0, 0, 0, slot, edge[rng_n (r, 10)], edge[rng_n (r, 10)], edge[rng_n (r, 10)], edge[rng_n (r, 10)] };
	if (rng_chance (r, 1, 3)) { c[5] = rng_range (r, 0, 65535); c[6] = rng_range (r, 0, 65535); c[7] = rng_range (r, 0, 65535); }
	if (g->s[slot].used) gen_unref (g, slot);
	sc_addv (sc, MOP_SOLID, 8, c);
	g->s[slot].used = 1; g->s[slot].kind = MOP_SOLID; g->s[slot].w = g->s[slot].h = 1; g->s[slot].refs = 1; g->s[slot].has_alpha = -1;
	gen_composite (g, 0, slot, rng_chance (r, 5, 6) ? 3 : -1, 0);
	sc->ops[sc->n_ops - 1].a[M_PREFIX] = ops[rng_n (r, 10)];
    }
}

/* ---- table walk: one entry of one fast-path table of the library under test, and requests
 * built to fit it.  The tables are read from the implementations the library itself creates
 * (every delegate of the all-enabled chain), so a new entry is exercised as soon as it exists. */
static const pixman_fast_path_t *fp_list[2048];
static int n_fp = -1;
static int table_tight;        /* 1: operands exactly as large as the request needs (the C04 use of the walk) */

static void
collect_fast_paths (void)
{
    pixman_implementation_t *imp;
    n_fp = 0;
    for (imp = chain_get (0); imp; imp = imp->fallback)
    {
	const pixman_fast_path_t *e = imp->fast_paths;
	if (!e) continue;
	for (; e->op != PIXMAN_OP_NONE; e++)
	    if (n_fp < 2048) fp_list[n_fp++] = e;
    }
}

static int
fmt_index (pixman_format_code_t f)
{
    int k;
    for (k = 0; k < sim_n_formats; k++) if (sim_formats[k] == f) return k;
    return -1;
}

static int
op_index (pixman_op_t op)
{
    int k;
    for (k = 0; k < sim_n_ops; k++) if (sim_ops[k] == op) return k;
    return -1;
}

/* what the flag word of an operand asks for: 0 untransformed, 1 scale, 2/3/4 rotation by 90/180/270 */
static void
sampling_from_flags (uint32_t fl, rng_t *r, int *mode, int *filter, int *repeat, int *cover)
{
    *mode = (fl & FAST_PATH_ROTATE_90_TRANSFORM) ? 2 : (fl & FAST_PATH_ROTATE_180_TRANSFORM) ? 3 : (fl & FAST_PATH_ROTATE_270_TRANSFORM) ? 4 :
	    (fl & FAST_PATH_SCALE_TRANSFORM) ? 1 : 0;
    *filter = (fl & FAST_PATH_BILINEAR_FILTER) ? PIXMAN_FILTER_BILINEAR : (fl & FAST_PATH_NEAREST_FILTER) ? PIXMAN_FILTER_NEAREST :
	      rng_chance (r, 1, 2) ? PIXMAN_FILTER_NEAREST : PIXMAN_FILTER_BILINEAR;
    *cover = (fl & (FAST_PATH_SAMPLES_COVER_CLIP_NEAREST | FAST_PATH_SAMPLES_COVER_CLIP_BILINEAR)) != 0;
    if ((fl & FAST_PATH_NORMAL_REPEAT) == FAST_PATH_NORMAL_REPEAT) *repeat = PIXMAN_REPEAT_NORMAL;
    else if ((fl & FAST_PATH_PAD_REPEAT) == FAST_PATH_PAD_REPEAT) *repeat = PIXMAN_REPEAT_PAD;
    else if ((fl & FAST_PATH_REFLECT_REPEAT) == FAST_PATH_REFLECT_REPEAT) *repeat = PIXMAN_REPEAT_REFLECT;
    else if ((fl & FAST_PATH_NONE_REPEAT) == FAST_PATH_NONE_REPEAT) *repeat = PIXMAN_REPEAT_NONE;
    else *repeat = *cover ? PIXMAN_REPEAT_NONE : (int)rng_n (r, 4);
}

/* an operand image in `slot` for format code `f` and flag word `fl`, to be sampled for a dw x dh request */
static void
table_operand (gen_t *g, rng_t *r, scenario_t *sc, int slot, pixman_format_code_t f, uint32_t fl, int dw, int dh, int is_mask)
{
    static const int64_t edge[] = { 0, 0, 65535, 65535, 0x8000, 0x00ff, 0xff00, 0x0100, 0x7fff, 0xfeff };
    int mode, filter, repeat, cover, fi;
    if (f == PIXMAN_solid)
    {
	int64_t c[8] = { 0, 0, 0, slot, edge[rng_n (r, 10)], edge[rng_n (r, 10)], edge[rng_n (r, 10)], edge[rng_n (r, 10)] };
	if (rng_chance (r, 1, 2)) { c[4] = rng_range (r, 0, 65535); c[5] = rng_range (r, 0, c[4]); c[6] = rng_range (r, 0, c[4]); c[7] = rng_range (r, 0, c[4]); }
	sc_addv (sc, MOP_SOLID, 8, c);
	g->s[slot].used = 1; g->s[slot].kind = MOP_SOLID; g->s[slot].w = g->s[slot].h = 1; g->s[slot].refs = 1; g->s[slot].has_alpha = -1;
	return;
    }
    fi = fmt_index (f);
    if (fi < 0) fi = fmt_index (is_mask ? PIXMAN_a8 : PIXMAN_a8r8g8b8);
    sampling_from_flags (fl, r, &mode, &filter, &repeat, &cover);
    {
	int64_t a[14] = { 0, 0, 0, slot, 0, 65536, 0, 0, 0, 65536, 0, 0, 0, 65536 };
	int64_t ff[9] = { 0, 0, 0, slot, filter, 1, 1, 0, 0 };
	int64_t rp[5] = { 0, 0, 0, slot, repeat };
	int slack_w = table_tight ? 0 : 8, slack_h = table_tight ? 0 : 3, side = table_tight ? 8 * (int)rng_n (r, 2) : 0;
	int sw = dw + slack_w, sh = dh + slack_h;
	switch (mode)
	{
	case 0:
	    if (!cover && rng_chance (r, 1, 4)) { sw = (int)rng_range (r, 1, dw + 8); sh = (int)rng_range (r, 1, dh + 3); }
	    gen_bits_exact (g, slot, fi, sw, sh, table_tight ? 0 : (int)rng_n (r, 2), rng_chance (r, 1, 6), (int)rng_n (r, 16), side);
	    if (!(fl & FAST_PATH_ID_TRANSFORM) && rng_chance (r, 1, 2)) { a[7] = rng_range (r, 0, 3) * 65536; sc_addv (sc, MOP_SET_TRANSFORM, 14, a); }
	    break;
	case 1:
	{
	    int64_t sx = rng_chance (r, 1, 5) ? 65536 : rng_range (r, 20000, 3 * 65536), sy = rng_chance (r, 1, 2) ? 65536 : rng_range (r, 20000, 3 * 65536);
	    if (cover) { sw = (int)(((int64_t)(dw + slack_w) * sx >> 16) + 4); sh = (int)(((int64_t)(dh + slack_h) * sy >> 16) + 4); a[7] = 65536 + rng_range (r, 0, 65535); a[10] = 65536 + rng_range (r, 0, 65535); }
	    else { sw = rng_chance (r, 1, 3) ? (int)rng_range (r, 64, 90) : (int)rng_range (r, 1, 40); sh = (int)rng_range (r, 1, 12); a[7] = rng_range (r, -8 * 65536, 40 * 65536); a[10] = rng_range (r, -4 * 65536, 8 * 65536); }
	    if (sw > 600) sw = 600;
	    a[5] = sx; a[9] = sy;
	    gen_bits_exact (g, slot, fi, sw, sh, table_tight ? 0 : (int)rng_n (r, 2), rng_chance (r, 1, 6), (int)rng_n (r, 16), side);
	    sc_addv (sc, MOP_SET_TRANSFORM, 14, a);
	    break;
	}
	default:
	{
	    /* rotations about the origin, translated back so that the request lies inside the source */
	    int W = dw + slack_w, H = dh + slack_h;
	    if (mode == 3) { sw = W; sh = H; a[5] = -65536; a[9] = -65536; a[7] = (int64_t)sw * 65536; a[10] = (int64_t)sh * 65536; }
	    else
	    {
		sw = H; sh = W;
		a[5] = 0; a[9] = 0;
		if (mode == 2) { a[6] = -65536; a[8] = 65536; a[7] = (int64_t)sw * 65536; a[10] = 0; }
		else { a[6] = 65536; a[8] = -65536; a[7] = 0; a[10] = (int64_t)sh * 65536; }
	    }
	    gen_bits_exact (g, slot, fi, sw, sh, table_tight ? 0 : (int)rng_n (r, 2), rng_chance (r, 1, 6), (int)rng_n (r, 16), side);
	    sc_addv (sc, MOP_SET_TRANSFORM, 14, a);
	    break;
	}
	}
	sc_addv (sc, MOP_SET_FILTER, 9, ff);
	sc_addv (sc, MOP_SET_REPEAT, 5, rp);
	if (is_mask && (fl & FAST_PATH_COMPONENT_ALPHA)) { int64_t ca[5] = { 0, 0, 0, slot, 1 }; sc_addv (sc, MOP_SET_COMPONENT_ALPHA, 5, ca); }
    }
}

static void
gen_c02_table (gen_t *g, rng_t *r, scenario_t *sc)
{
    const pixman_fast_path_t *e = NULL;
    int tries, i, n_req = (int)rng_range (r, 3, 7), fd, dw, dh, opi = -1, has_mask, dst_extra = 0;
    if (n_fp < 0) collect_fast_paths ();
    for (tries = 0; tries < 16; tries++)
    {
	e = fp_list[rng_n (r, n_fp ? n_fp : 1)];
	opi = n_fp ? op_index (e->op) : -1;
	if (opi >= 0 && e->src_format != PIXMAN_pixbuf && e->src_format != PIXMAN_rpixbuf) break;
	opi = -1;
    }
    if (!table_tight) sc_set (sc, "chains", 0xffffffffll);
    if (opi < 0) { gen_c02_scaled (g, r, sc); return; }
    fd = fmt_index (e->dest_format);
    if (fd < 0) fd = fmt_index (rng_chance (r, 1, 2) ? PIXMAN_a8r8g8b8 : PIXMAN_r5g6b5);
    dw = gen_pick_size (g, 150); dh = (int)rng_range (r, 1, 4);
    /* now and then rows of several hundred pixels: counters and masks that were sized for "a row" */
    if (rng_chance (r, 1, 8)) { dw = (int)rng_range (r, 256, 700); dh = (int)rng_range (r, 1, 2); }
    /* tight: operands are exactly what the request needs; the destination is that too, or larger so
     * that the request can sit at an offset the operands know nothing about */
    dst_extra = table_tight && rng_chance (r, 1, 2);
    if (table_tight && !dst_extra) gen_bits_exact (g, 0, fd, dw, dh, 0, rng_chance (r, 1, 6), (int)rng_n (r, 16), 8 * (int)rng_n (r, 2));
    else gen_bits_exact (g, 0, fd, dw + 8, dh + 3, table_tight ? 0 : (int)rng_n (r, 2), rng_chance (r, 1, 6), (int)rng_n (r, 16), table_tight ? 8 * (int)rng_n (r, 2) : 0);
    table_operand (g, r, sc, 2, e->src_format, e->src_flags, dw, dh, 0);
    has_mask = e->mask_format != PIXMAN_null;
    if (has_mask) table_operand (g, r, sc, 3, e->mask_format, e->mask_flags, dw, dh, 1);
    for (i = 0; i < n_req; i++)
    {
	int x = rng_chance (r, 1, 2) ? 0 : (int)rng_range (r, 0, 7), y = (int)rng_range (r, 0, 2);
	int w = rng_chance (r, 1, 2) ? dw : (int)rng_range (r, 1, dw), h = rng_chance (r, 1, 2) ? dh : (int)rng_range (r, 1, dh);
	int sx = (int)rng_range (r, 0, 7), sy = (int)rng_range (r, 0, 2);
	int64_t c[16] = { 0, 0, 0, opi, 2, has_mask ? 3 : -1, 0, sx, sy, rng_chance (r, 1, 2) ? sx : rng_range (r, 0, 7), rng_chance (r, 1, 2) ? sy : rng_range (r, 0, 2), x, y, w, h };
	int k;
	if (table_tight && rng_chance (r, 3, 4))
	{
	    /* the whole of the operands, to their last pixel of their last row; into the whole
	     * destination, or at an offset in a larger one */
	    c[7] = c[8] = c[9] = c[10] = c[11] = c[12] = 0; c[13] = dw; c[14] = dh;
	    if (dst_extra) { c[11] = rng_range (r, 0, 8); c[12] = rng_range (r, 0, 3); }
	}
	/* pixel content in short runs of transparent / opaque / mixed, fresh for most requests */
	for (k = 0; k < 3; k++)
	{
	    int slot = k == 0 ? 2 : k == 1 ? 3 : 0;
	    if (g->s[slot].used && g->s[slot].kind == MOP_BITS && rng_chance (r, 2, 3))
	    {
		int64_t sb[6] = { 0, 0, 0, slot, (int64_t)(rng_u64 (r) >> 20), 1 };
		sc_addv (sc, MOP_SCRIBBLE, 6, sb);
	    }
	}
	sc_addv (sc, MOP_COMPOSITE, 15, c);
    }
}

/* the "pixbuf" idiom: non-premultiplied x888 source and a888 mask over the very same bits,
 * composited OVER onto 8888 / 0565 (special-cased by the dispatcher and by fast, mmx, sse2) */
static void
gen_c02_pixbuf (gen_t *g, rng_t *r, scenario_t *sc)
{
    static const pixman_format_code_t xs[2] = { PIXMAN_x8b8g8r8, PIXMAN_x8r8g8b8 }, as[2] = { PIXMAN_a8b8g8r8, PIXMAN_a8r8g8b8 };
    static const pixman_format_code_t df[] = { PIXMAN_a8r8g8b8, PIXMAN_x8r8g8b8, PIXMAN_r5g6b5, PIXMAN_a8b8g8r8, PIXMAN_b5g6r5, PIXMAN_x8b8g8r8 };
    int order = (int)rng_n (r, 2), i, k, fx = 0, fa = 0, fd = 0, n_req = (int)rng_range (r, 3, 8);
    pixman_format_code_t want = df[rng_n (r, 6)];
    int W = gen_pick_size (g, 140), H = (int)rng_range (r, 1, 5);
    sc_set (sc, "chains", 0xffffffffll);
    for (k = 0; k < sim_n_formats; k++) { if (sim_formats[k] == xs[order]) fx = k; if (sim_formats[k] == as[order]) fa = k; if (sim_formats[k] == want) fd = k; }
    gen_bits_exact (g, 0, fd, W + (int)rng_n (r, 3), H, (int)rng_n (r, 2), rng_chance (r, 1, 6), (int)rng_n (r, 16), 0);
    gen_bits_exact (g, 2, fx, W, H, (int)rng_n (r, 2), 0, (int)rng_n (r, 16), 0);
    gen_alias (g, 3, 2, fa);
    for (i = 0; i < n_req; i++)
    {
	int sx = rng_chance (r, 2, 3) ? 0 : (int)rng_range (r, 0, 5), sy = rng_chance (r, 2, 3) ? 0 : (int)rng_range (r, 0, H - 1);
	int64_t c[16] = { 0, 0, 0, rng_chance (r, 4, 5) ? 3 : (int64_t)rng_n (r, 14), 2, 3, 0, sx, sy, sx, sy, rng_n (r, 4), 0, W, H };
	if (rng_chance (r, 1, 6)) c[9] += 1;             /* mask offset differs: not a pixbuf request any more */
	sc_addv (sc, MOP_COMPOSITE, 15, c);
	if (rng_chance (r, 1, 3)) { int64_t sb[5] = { 0, 0, 0, 2, (int64_t)(rng_u64 (r) >> 20) }; sc_addv (sc, MOP_SCRIBBLE, 5, sb); }
    }
}

static void
gen_c02 (gen_t *g, rng_t *r, scenario_t *sc)
{
    int n_img = (int)rng_range (r, 3, 5), i, n_req = (int)rng_range (r, 4, 10);
    int fclass = rng_chance (r, 2, 3) ? FC_FASTPATH : FC_ANY;
    sc_set (sc, "chains", 0xffffffffll);
    /* slot 0,1: destinations; the rest sources/masks */
    gen_bits (g, 0, fclass, 200, 12, 0x9);
    gen_bits (g, 1, fclass, 80, 20, 0x9);
    for (i = 2; i < 2 + n_img; i++) gen_source (g, i, rng_chance (r, 1, 2) ? fclass : FC_ANY, 64);
    for (i = 2; i < 2 + n_img; i++) if (rng_chance (r, 2, 3)) add_props (g, r, i, 1, 0);
    if (rng_chance (r, 1, 3)) add_props (g, r, 0, 0, 0);
    if (rng_chance (r, 1, 8)) { int m = gen_free_slot (g); if (m >= 0) { gen_bits (g, m, FC_ALPHA, 60, 12, 0); gen_alpha_map (g, 0, m); } }
    for (i = 0; i < n_req; i++)
    {
	int dst = (int)rng_n (r, 2), src = 2 + (int)rng_n (r, n_img), mask = rng_chance (r, 2, 5) ? 2 + (int)rng_n (r, n_img) : -1;
	int roll = (int)rng_n (r, 100);
	if (roll < 70) gen_composite (g, 1, src, mask, dst);
	else if (roll < 76) gen_fill_boxes (g, dst, rng_chance (r, 1, 2), 1);
	else if (roll < 80) gen_fill (g, dst);
	else if (roll < 84) gen_blt (g, dst ^ 1, dst);
	else if (roll < 92)
	{
	    static const int tk[] = { MOP_COMPOSITE_TRAPS, MOP_COMPOSITE_TRAPS, MOP_COMPOSITE_TRIS, MOP_ADD_TRAPEZOIDS, MOP_ADD_TRAPS };
	    gen_traps (g, tk[rng_n (r, 5)], src, dst);
	}
	else
	{
	    if (!g->gc_exists[0])
	    {
		int gi;
		gen_glyph_op (g, MOP_GC_CREATE, 0, 0, 0);
		for (gi = 0; gi < 3; gi++)
		{
		    int s = gen_free_slot (g);
		    if (s < 0) break;
		    gen_bits (g, s, rng_chance (r, 2, 3) ? FC_ALPHA : FC_32, 12, 12, 0);
		    gen_glyph_op (g, MOP_GC_INSERT, 0, s, 0);
		}
	    }
	    gen_glyphs (g, 0, src, dst);
	}
	/* properties change between requests now and then: dispatch-cache churn */
	if (rng_chance (r, 1, 4)) add_props (g, r, src, 1, 0);
    }
}

static void
gen_c19 (gen_t *g, rng_t *r, scenario_t *sc)
{
    int n_req = (int)rng_range (r, 4, 12), i;
    static const pixman_format_code_t bpps[] = { PIXMAN_a1, PIXMAN_a4, PIXMAN_a8, PIXMAN_r5g6b5, PIXMAN_r8g8b8, PIXMAN_a8r8g8b8,
						 PIXMAN_x8r8g8b8, PIXMAN_rgba_float, PIXMAN_a8r8g8b8, PIXMAN_a8, PIXMAN_r5g6b5 };
    int f0 = 0, f1 = 0, k;
    pixman_format_code_t p0 = bpps[rng_n (r, 11)], p1 = rng_chance (r, 2, 3) ? p0 : bpps[rng_n (r, 11)];
    sc_set (sc, "chains", 0xffffffffll);
    for (k = 0; k < sim_n_formats; k++) { if (sim_formats[k] == p0) f0 = k; if (sim_formats[k] == p1) f1 = k; }
    if (rng_chance (r, 1, 2))
    {
	/* raw fill / blt: every x and width residue modulo 128 bits comes up over a batch */
	int w0 = (int)rng_range (r, 1, 300), w1 = rng_chance (r, 1, 2) ? w0 : (int)rng_range (r, 1, 300);
	gen_bits_exact (g, 0, f0, w0, (int)rng_range (r, 1, 5), (int)rng_n (r, 3), rng_chance (r, 1, 4), (int)rng_n (r, 16), 8 * (int)rng_n (r, 2));
	gen_bits_exact (g, 1, f1, w1, (int)rng_range (r, 1, 5), (int)rng_n (r, 3), rng_chance (r, 1, 4), (int)rng_n (r, 16), 8 * (int)rng_n (r, 2));
	for (i = 0; i < n_req; i++)
	{
	    if (rng_chance (r, 1, 2)) gen_fill (g, (int)rng_n (r, 2));
	    else gen_blt (g, 0, 1);
	}
    }
    else
    {
	/* fill_boxes / fill_rectangles on any destination format, with clips */
	gen_bits (g, 0, rng_chance (r, 1, 2) ? FC_FASTPATH : FC_ANY, 120, 16, 0x9);
	gen_bits (g, 1, FC_ANY, 60, 16, 0x9);
	if (rng_chance (r, 1, 2)) gen_clip (g, 0, 0);
	if (rng_chance (r, 1, 3)) gen_clip (g, 1, 0);
	if (rng_chance (r, 1, 8)) { gen_bits (g, 2, FC_ALPHA, 60, 12, 0); gen_alpha_map (g, 0, 2); }
	for (i = 0; i < n_req; i++)
	{
	    gen_fill_boxes (g, (int)rng_n (r, 2), rng_chance (r, 1, 3), 0);
	    if (rng_chance (r, 1, 6)) gen_clip (g, (int)rng_n (r, 2), 1);
	}
    }
}

static int64_t last_sx, last_sy;      /* scale of the last near-affine transform generated, 0 if none */

static void
extreme_transform (gen_t *g, rng_t *r, int slot)
{
    int64_t a[16] = { 0, 0, 0, slot, 0, 65536, 0, 0, 0, 65536, 0, 0, 0, 65536 };
    int64_t *m = a + 5;
    switch (rng_n (r, 10))
    {
    case 8: case 9:
	/* a plain scale whose bottom row is not quite (0,0,1): everything about it looks
	 * affine except one entry */
	m[0] = rng_chance (r, 1, 2) ? 65536 : rng_range (r, 20000, 3 * 65536); m[4] = rng_chance (r, 1, 2) ? 65536 : rng_range (r, 20000, 3 * 65536);
	m[2] = rng_range (r, 0, 8) * 65536; m[5] = rng_range (r, 0, 4) * 65536;
	switch (rng_n (r, 3))
	{
	case 0: m[7] = (rng_chance (r, 1, 2) ? 1 : -1) * rng_range (r, 100, 6000); break;
	case 1: m[6] = (rng_chance (r, 1, 2) ? 1 : -1) * rng_range (r, 100, 6000); break;
	default: m[8] = rng_chance (r, 1, 2) ? 2 * 65536 : 40000; break;
	}
	break;
    case 0: m[0] = rng_range (r, 1, 300); m[4] = rng_range (r, 1, 300); break;                        /* huge magnification */
    case 1: m[0] = rng_range (r, 1000, 32767) * 65536ll; m[4] = rng_range (r, 1000, 32767) * 65536ll; break;   /* huge minification */
    case 2: m[2] = (rng_chance (r, 1, 2) ? 1 : -1) * rng_range (r, 32000, 32767) * 65536ll; break;     /* translation at the 16.16 limit */
    case 3: m[5] = (rng_chance (r, 1, 2) ? 1 : -1) * rng_range (r, 32000, 32767) * 65536ll; m[2] = rng_range (r, -70000, 70000); break;
    case 4: m[6] = rng_range (r, -70000, 70000); m[7] = rng_range (r, -70000, 70000); m[8] = rng_range (r, -3, 3); break;   /* near-singular projective */
    case 5: m[0] = 0; m[4] = 0; m[1] = rng_range (r, -3, 3); m[3] = rng_range (r, -3, 3); break;       /* singular */
    case 6: m[0] = 65536 + rng_range (r, -2, 2); m[4] = 65536 + rng_range (r, -2, 2); m[2] = rng_range (r, -3, 3) * 32768; m[5] = rng_range (r, -3, 3) * 32768; break;  /* almost identity: cover-flag edge */
    default: { int i; for (i = 0; i < 9; i++) m[i] = rng_range (r, -0x7fffffffll, 0x7fffffffll); break; }
    }
    last_sx = last_sy = 0;
    if (m[1] == 0 && m[3] == 0 && m[0] > 0 && m[4] > 0 && (m[6] || m[7] || m[8] != 65536)) { last_sx = m[0]; last_sy = m[4]; }
    sc_addv (g->sc, MOP_SET_TRANSFORM, 14, a);
}

/* exact-fit flavour: untransformed requests that consume source and mask to
 * their very last pixel of their very last row, with minimal strides and the
 * storage flush against the guard page: the classic place for a vector loop
 * to load one word too many */
static void
gen_c04_fit (gen_t *g, rng_t *r, scenario_t *sc)
{
    static const pixman_format_code_t mf[] = { PIXMAN_a1, PIXMAN_a8, PIXMAN_a1, PIXMAN_a4, PIXMAN_a8r8g8b8 };
    static const pixman_format_code_t sf[] = { PIXMAN_a8r8g8b8, PIXMAN_x8r8g8b8, PIXMAN_r5g6b5, PIXMAN_a8, PIXMAN_a1, PIXMAN_r8g8b8, PIXMAN_a1r5g5b5, PIXMAN_a4r4g4b4 };
    static const pixman_format_code_t df[] = { PIXMAN_a8r8g8b8, PIXMAN_x8r8g8b8, PIXMAN_r5g6b5, PIXMAN_a8, PIXMAN_a1, PIXMAN_r8g8b8 };
    static const int ws[] = { 32, 64, 96, 128, 31, 33, 16, 8, 24, 48, 1, 7 };
    static const int ops[] = { 3, 1, 12, 3, 8, 5 };
    uint32_t chains = (1u << REF_CHAIN) | 1u;
    int W = ws[rng_n (r, 12)], H = (int)rng_range (r, 1, 3), i, k, fi[3], n_req = (int)rng_range (r, 3, 8);
    pixman_format_code_t want[3];
    for (k = 0; k < 5; k++) chains |= 1u << rng_n (r, N_CHAINS);
    sc_set (sc, "chains", chains);
    want[0] = df[rng_n (r, 6)]; want[1] = sf[rng_n (r, 8)]; want[2] = mf[rng_n (r, 5)];
    for (k = 0; k < 3; k++) for (fi[k] = 0; fi[k] < sim_n_formats - 1; fi[k]++) if (sim_formats[fi[k]] == want[k]) break;
    /* flags 8: storage ends flush against the upper guard page; 0: starts flush against the lower one */
    gen_bits_exact (g, 0, fi[0], W, H, 0, rng_chance (r, 1, 5), 0, 8 * (int)rng_n (r, 2));
    gen_bits_exact (g, 2, fi[1], W, H, 0, rng_chance (r, 1, 5), 0, 8 * (int)rng_n (r, 2));
    gen_bits_exact (g, 3, fi[2], W, H, 0, 0, 0, 8 * (int)rng_n (r, 2));
    gen_solid (g, 4);
    sc->ops[sc->n_ops - 1].a[M_PREFIX + 1] = rng_chance (r, 2, 3) ? 65535 : 30000;        /* opaque more often than not */
    for (i = 0; i < n_req; i++)
    {
	int src = rng_chance (r, 1, 2) ? 4 : 2, mask = rng_chance (r, 2, 3) ? 3 : -1;
	int off = rng_chance (r, 1, 2) ? 0 : (int)rng_range (r, 0, W - 1), offy = rng_chance (r, 2, 3) ? 0 : (int)rng_range (r, 0, H - 1);
	int64_t c[16] = { 0, 0, 0, ops[rng_n (r, 6)], src, mask, 0, off, offy, off, offy, rng_chance (r, 1, 2) ? 0 : off, offy, W - off, H - offy };
	if (rng_chance (r, 1, 4))
	{
	    /* solid fills that end exactly at the end of the last row */
	    int64_t fb[16] = { 0, 0, 0, rng_chance (r, 1, 2) ? 1 : 3, 0, 65535, rng_range (r, 0, 65535), 0, 65535, 1, off, offy, W, H };
	    int64_t fl[9] = { 0, 0, 0, 0, off, offy, W - off, H - offy, (int64_t)(rng_u64 (r) & 0xffffffffu) };
	    if (rng_chance (r, 1, 2)) sc_addv (sc, MOP_FILL_BOXES, 14, fb); else sc_addv (sc, MOP_FILL, 9, fl);
	    continue;
	}
	sc_addv (sc, MOP_COMPOSITE, 15, c);
    }
}

/* scaled exact-fit: an integer (or 1/integer) scale, translations of 0, +-1/65536 and
 * +-1/2, every repeat mode, NEAREST or BILINEAR, requests whose width is exactly what the
 * scale makes of the source (and one more, and one less, odd and even), ending at the last
 * pixel of the last row of an unpadded source that sits flush against the guard page */
static void
gen_c04_scaled_fit (gen_t *g, rng_t *r, scenario_t *sc)
{
    static const pixman_format_code_t sf[] = { PIXMAN_a8r8g8b8, PIXMAN_x8r8g8b8, PIXMAN_r5g6b5, PIXMAN_a8, PIXMAN_a8r8g8b8 };
    static const pixman_format_code_t df[] = { PIXMAN_a8r8g8b8, PIXMAN_x8r8g8b8, PIXMAN_r5g6b5, PIXMAN_a8r8g8b8 };
    static const int ops[] = { 1, 3, 12, 5, 7, 11, 3, 12 };
    static const int64_t eps[] = { 0, 0, 1, -1, 32768, -32768, 32767, 32769, 2, 65535, 16384, -16384, 49152, 8192 };
    uint32_t chains = (1u << REF_CHAIN) | 1u | (1u << CHAIN_SSE2) | (1u << (CHAIN_SSE2 | CHAIN_SSSE3));
    int SW = rng_chance (r, 1, 3) ? (int)rng_range (r, 60, 80) : (int)rng_range (r, 1, 24), SH = (int)rng_range (r, 1, 4), k, fi[2], i, n_req = (int)rng_range (r, 3, 8);
    int num = (int)rng_range (r, 1, 4), den = (int)rng_range (r, 1, 4);         /* destination = source * num / den */
    int64_t sx = (int64_t)65536 * den / num, sy = rng_chance (r, 1, 2) ? 65536 : sx;
    int DWI = SW * num / den + 3, DHI = (sy == 65536 ? SH : SH * num / den + 2);
    pixman_format_code_t want[2];
    if (DWI < 1) DWI = 1;
    if (DHI < 1) DHI = 1;
    for (k = 0; k < 4; k++) chains |= 1u << rng_n (r, N_CHAINS);
    sc_set (sc, "chains", chains);
    want[0] = df[rng_n (r, 4)]; want[1] = sf[rng_n (r, 5)];
    for (k = 0; k < 2; k++) for (fi[k] = 0; fi[k] < sim_n_formats - 1; fi[k]++) if (sim_formats[fi[k]] == want[k]) break;
    gen_bits_exact (g, 0, fi[0], DWI + 2, DHI + 1, 0, 0, (int)rng_n (r, 16), 8 * (int)rng_n (r, 2));
    gen_bits_exact (g, 2, fi[1], SW, SH, 0, rng_chance (r, 1, 6), 0, 8 * (int)rng_n (r, 2));
    for (k = 0; k < sim_n_formats; k++) if (sim_formats[k] == PIXMAN_a8) break;
    gen_bits_exact (g, 3, k, DWI + 2, DHI + 1, 0, 0, 0, 8);
    for (i = 0; i < n_req; i++)
    {
	int64_t a[14] = { 0, 0, 0, 2, 0, sx, 0, eps[rng_n (r, 14)], 0, sy, eps[rng_n (r, 14)], 0, 0, 65536 };
	int64_t f[9] = { 0, 0, 0, 2, rng_chance (r, 1, 2) ? PIXMAN_FILTER_NEAREST : PIXMAN_FILTER_BILINEAR, 1, 1, 0, 0 };
	int64_t rp[5] = { 0, 0, 0, 2, rng_n (r, 4) };
	int w = SW * num / den + (int)rng_range (r, -1, 1), h = (sy == 65536 ? SH : SH * num / den) + (int)rng_range (r, -1, 0);
	int64_t c[16] = { 0, 0, 0, ops[rng_n (r, 8)], 2, rng_chance (r, 1, 3) ? 3 : -1, 0, 0, 0, 0, 0, rng_n (r, 3), rng_n (r, 2), w < 1 ? 1 : w, h < 1 ? 1 : h };
	if (rng_chance (r, 2, 5))
	{
	    /* NEAREST takes floor (x - 1/65536): the translation that puts sample positions
	     * exactly on pixel boundaries, so that one of them lands exactly on the wrap point */
	    a[7] = ((sx / 2) & 0xffff) == 0 ? 1 : ((sx / 2) & 0xffff) == 32768 ? 32769 : 1 + 65536 - ((sx / 2) & 0xffff);
	    f[4] = PIXMAN_FILTER_NEAREST;
	    if (rng_chance (r, 1, 2))
	    {
		/* BILINEAR looks at x - 1/2: the translation that gives samples a zero fraction, so that
		 * one of them sits exactly on the last pixel (of the last row) with nothing to blend in */
		f[4] = PIXMAN_FILTER_BILINEAR;
		a[7] = (32768 + 65536 - ((sx / 2) & 0xffff)) & 0xffff;
		if (rng_chance (r, 2, 3)) a[10] = (32768 + 65536 - ((sy / 2) & 0xffff)) & 0xffff;
	    }
	}
	if (rng_chance (r, 1, 3)) { a[7] += (int64_t)rng_range (r, 0, SW) * 65536; }
	sc_addv (sc, MOP_SET_TRANSFORM, 14, a);
	sc_addv (sc, MOP_SET_FILTER, 9, f);
	sc_addv (sc, MOP_SET_REPEAT, 5, rp);
	sc_addv (sc, MOP_COMPOSITE, 15, c);
    }
}

/* rotated exact-fit: rotations by 90, 180, 270 degrees (the tiled rotation fast paths) with a
 * translation at the very end of the range that keeps every NEAREST sample inside a tightly
 * packed source: the first or the last row / column of the source is consumed exactly */
static void
gen_c04_rotate_fit (gen_t *g, rng_t *r, scenario_t *sc)
{
    static const pixman_format_code_t ff[] = { PIXMAN_a8r8g8b8, PIXMAN_x8r8g8b8, PIXMAN_r5g6b5, PIXMAN_a8, PIXMAN_a8r8g8b8 };
    int fi, i, n_req = (int)rng_range (r, 2, 5);
    pixman_format_code_t want = ff[rng_n (r, 5)];
    int W = rng_chance (r, 1, 2) ? (int)rng_range (r, 30, 140) : (int)rng_range (r, 1, 30), H = (int)rng_range (r, 1, 24);
    for (fi = 0; fi < sim_n_formats - 1; fi++) if (sim_formats[fi] == want) break;
    gen_bits_exact (g, 0, fi, W + 4, H + 2, 0, 0, (int)rng_n (r, 16), 8 * (int)rng_n (r, 2));
    for (i = 0; i < n_req; i++)
    {
	int rot = 1 + (int)rng_n (r, 3);                 /* 1: 90, 2: 180, 3: 270 */
	int w = rng_chance (r, 1, 2) ? W : (int)rng_range (r, 1, W), h = rng_chance (r, 1, 2) ? H : (int)rng_range (r, 1, H);
	int nx = rot == 2 ? w : h, ny = rot == 2 ? h : w;       /* how many samples along the source's x and y */
	int sw = nx + (int)rng_n (r, 3), sh = ny + (int)rng_n (r, 3);
	int x_minus = rot != 3, y_minus = rot != 1;
	int64_t lo[2], hi[2], t[2];
	int64_t a[14] = { 0, 0, 0, 2, 0, 0, 0, 0, 0, 0, 0, 0, 0, 65536 };
	int64_t f[9] = { 0, 0, 0, 2, PIXMAN_FILTER_NEAREST, 1, 1, 0, 0 };
	int64_t rp[5] = { 0, 0, 0, 2, rng_chance (r, 3, 4) ? 0 : rng_n (r, 4) };
	int64_t un[4] = { 0, 0, 0, 2 };
	int k;
	/* sample k of n along an axis is at +-(k + 1/2) + t and NEAREST takes floor (. - 1/65536) */
	lo[0] = x_minus ? (int64_t)nx * 65536 - 32768 + 1 : -32768 + 1; hi[0] = x_minus ? (int64_t)sw * 65536 + 32768 : (int64_t)(sw - nx) * 65536 + 32768;
	lo[1] = y_minus ? (int64_t)ny * 65536 - 32768 + 1 : -32768 + 1; hi[1] = y_minus ? (int64_t)sh * 65536 + 32768 : (int64_t)(sh - ny) * 65536 + 32768;
	for (k = 0; k < 2; k++)
	    switch (rng_n (r, 4))
	    {
	    case 0: t[k] = lo[k]; break;
	    case 1: case 2: t[k] = hi[k]; break;
	    default: t[k] = rng_range (r, lo[k], hi[k]); break;
	    }
	if (rot == 2) { a[5] = -65536; a[9] = -65536; }
	else if (rot == 1) { a[6] = -65536; a[8] = 65536; }
	else { a[6] = 65536; a[8] = -65536; }
	a[7] = t[0]; a[10] = t[1];
	if (g->s[2].used) sc_addv (sc, MOP_UNREF, 4, un);
	g->s[2].used = 0;
	gen_bits_exact (g, 2, fi, sw, sh, 0, rng_chance (r, 1, 6), 0, 8 * (int)rng_n (r, 2));
	sc_addv (sc, MOP_SET_TRANSFORM, 14, a);
	sc_addv (sc, MOP_SET_FILTER, 9, f);
	sc_addv (sc, MOP_SET_REPEAT, 5, rp);
	{
	    int64_t c[16] = { 0, 0, 0, rng_chance (r, 3, 4) ? 1 : 3, 2, -1, 0, 0, 0, 0, 0, rng_n (r, 4), rng_n (r, 2), w, h };
	    sc_addv (sc, MOP_COMPOSITE, 15, c);
	}
    }
}

/* projective cover: a scale whose bottom row is (q, p, 1) with one of q, p zero, and a request
 * computed so that the TRUE (divided) mapping stays inside the source with a pixel to spare
 * while the undivided affine part runs well past it.  Everything derived from the transform
 * (affine / scale flags, cover flags, choice of fetcher) has to agree about which of the two
 * mappings is in force. */
static void
gen_c04_projcover (gen_t *g, rng_t *r, scenario_t *sc)
{
    static const pixman_format_code_t sf[] = { PIXMAN_a8r8g8b8, PIXMAN_x8r8g8b8, PIXMAN_r5g6b5, PIXMAN_a8, PIXMAN_a8r8g8b8 };
    static const pixman_format_code_t df[] = { PIXMAN_a8r8g8b8, PIXMAN_x8r8g8b8, PIXMAN_r5g6b5, PIXMAN_a8r8g8b8 };
    static const int ops[] = { 1, 3, 12, 3 };
    int SW = (int)rng_range (r, 6, 60), SH = (int)rng_range (r, 3, 30), k, fi[2], i, n_req = (int)rng_range (r, 2, 5);
    pixman_format_code_t want[2];
    want[0] = df[rng_n (r, 4)]; want[1] = sf[rng_n (r, 5)];
    for (k = 0; k < 2; k++) for (fi[k] = 0; fi[k] < sim_n_formats - 1; fi[k]++) if (sim_formats[fi[k]] == want[k]) break;
    gen_bits_exact (g, 0, fi[0], 200, 120, 0, 0, (int)rng_n (r, 16), 8 * (int)rng_n (r, 2));
    gen_bits_exact (g, 2, fi[1], SW, SH, 0, rng_chance (r, 1, 6), 0, 8 * (int)rng_n (r, 2));
    for (i = 0; i < n_req; i++)
    {
	int64_t sx = rng_chance (r, 1, 2) ? 65536 : rng_range (r, 30000, 3 * 65536), sy = rng_chance (r, 1, 2) ? 65536 : rng_range (r, 30000, 3 * 65536);
	int64_t pq = rng_range (r, 3000, 50000);
	int on_y = !rng_chance (r, 1, 3), W, H, w, h;
	double fx = sx / 65536.0, fy = sy / 65536.0, fp = pq / 65536.0;
	int64_t a[14] = { 0, 0, 0, 2, 0, sx, 0, 0, 0, sy, 0, on_y ? 0 : pq, on_y ? pq : 0, 65536 };
	int64_t f[9] = { 0, 0, 0, 2, rng_chance (r, 1, 2) ? PIXMAN_FILTER_NEAREST : PIXMAN_FILTER_BILINEAR, 1, 1, 0, 0 };
	int64_t rp[5] = { 0, 0, 0, 2, rng_chance (r, 3, 4) ? 0 : rng_n (r, 4) };
	/* largest request whose true mapping keeps a pixel and a half away from the far edges */
	W = H = 1;
	for (w = 1; w <= 190; w++)
	{
	    double xx = w - 0.5, ww = on_y ? 1 + fp * 0.5 : 1 + fp * xx;
	    if (fx * xx / ww <= SW - 1.5) W = w; else if (on_y) break;
	}
	for (h = 1; h <= 110; h++)
	{
	    double yy = h - 0.5, ww = on_y ? 1 + fp * yy : 1 + fp * 0.5;
	    if (fy * yy / ww <= SH - 1.5) H = h; else if (!on_y) break;
	}
	if (rng_chance (r, 1, 4)) { W = (int)rng_range (r, 1, W); }
	if (rng_chance (r, 1, 4)) { H = (int)rng_range (r, 1, H); }
	{
	    int64_t c[16] = { 0, 0, 0, ops[rng_n (r, 4)], 2, -1, 0, 0, 0, 0, 0, 0, 0, W, H };
	    sc_addv (sc, MOP_SET_TRANSFORM, 14, a);
	    sc_addv (sc, MOP_SET_FILTER, 9, f);
	    sc_addv (sc, MOP_SET_REPEAT, 5, rp);
	    sc_addv (sc, MOP_COMPOSITE, 15, c);
	}
    }
}

/* an image of 4 GiB and a little whose pixels pixman allocates: the size arithmetic of its
 * own allocation, then requests that touch rows near the top (row offsets below 2^31) */
static void
gen_c04_huge (gen_t *g, rng_t *r, scenario_t *sc)
{
    int i, n = (int)rng_range (r, 1, 4);
    int64_t a[4] = { 0, 0, 0, 0 }, b[5] = { 0, 0, 0, 0, 0 };
    b[4] = (int64_t)rng_n (r, 8);
    /* two chains are plenty: the allocation does not depend on the chain */
    sc_set (sc, "chains", (int64_t)((1u << rng_n (r, N_CHAINS)) | (1u << rng_n (r, N_CHAINS))));
    sc_addv (sc, MOP_BITS_HUGE, 5, b);
    /* the generator works in the top left corner of it */
    g->s[0].used = 1; g->s[0].kind = MOP_BITS; g->s[0].w = 64; g->s[0].h = 48; g->s[0].fmt_idx = 0; g->s[0].bpp = 8; g->s[0].refs = 1; g->s[0].has_alpha = -1;
    gen_bits (g, 1, FC_ANY, 40, 12, 0);
    for (i = 0; i < n; i++)
    {
	if (rng_chance (r, 1, 2)) gen_fill_boxes (g, 0, 0, 0);
	else if (rng_chance (r, 1, 2)) gen_composite (g, 1, 0, -1, 1);
	else gen_composite (g, 1, 1, -1, 0);
    }
    a[3] = 0; sc_addv (sc, MOP_UNREF, 4, a);
}

static void
gen_c04 (gen_t *g, rng_t *r, scenario_t *sc)
{
    int n_req = (int)rng_range (r, 3, 8), i, k;
    uint32_t chains = 1u << REF_CHAIN;
    for (k = 0; k < 5; k++) chains |= 1u << rng_n (r, N_CHAINS);
    if (rng_chance (r, 1, 2)) chains |= 1u;          /* everything enabled: what ships */
    sc_set (sc, "chains", chains);
    /* destinations */
    if (rng_chance (r, 1, 6)) gen_bits_exact (g, 0, gen_pick_format (g, FC_FASTPATH), (int)rng_range (r, 32760, 33000), 1, 0, 0, (int)rng_n (r, 16), 8);
    else gen_bits (g, 0, rng_chance (r, 1, 2) ? FC_FASTPATH : FC_ANY, 140, 10, 0x9);
    gen_bits (g, 1, FC_ANY, rng_chance (r, 1, 4) ? 1 : 40, rng_chance (r, 1, 4) ? 1 : 12, 0x9);
    for (i = 2; i < 6; i++)
    {
	switch (rng_n (r, 6))
	{
	case 0: gen_bits_exact (g, i, gen_pick_format (g, FC_FASTPATH), 1, 1, 0, 0, (int)rng_n (r, 16), 9 & (int)rng_n (r, 16)); break;
	case 1: gen_bits_exact (g, i, gen_pick_format (g, FC_FASTPATH), (int)rng_range (r, 1, 3), (int)rng_range (r, 1, 80), 0, rng_chance (r, 1, 3), (int)rng_n (r, 16), 9 & (int)rng_n (r, 16)); break;
	case 2: gen_bits_exact (g, i, gen_pick_format (g, FC_ANY), (int)rng_range (r, 32760, 40000), 1, 0, 0, 0, 8); break;
	default: gen_source (g, i, rng_chance (r, 1, 2) ? FC_FASTPATH : FC_ANY, 48); break;
	}
	last_sx = 0;
	if (rng_chance (r, 1, 2)) extreme_transform (g, r, i); else if (rng_chance (r, 1, 2)) gen_transform (g, i, TC_ANY);
	if (rng_chance (r, 2, 3)) gen_filter (g, i, 1);
	if (rng_chance (r, 2, 3)) gen_repeat (g, i);
	if (last_sx && g->s[i].kind == MOP_BITS)
	{
	    /* a request that, by the scale alone, just about covers the whole source: the cover
	     * flags must be computed from the transform that is really applied */
	    int64_t f[9] = { 0, 0, 0, i, rng_chance (r, 2, 3) ? PIXMAN_FILTER_NEAREST : PIXMAN_FILTER_BILINEAR, 1, 1, 0, 0 };
	    int64_t rp[5] = { 0, 0, 0, i, rng_chance (r, 2, 3) ? 0 : 2 };
	    int64_t c[16] = { 0, 0, 0, rng_chance (r, 1, 2) ? 1 : 3, i, -1, 0, 0, 0, 0, 0, 0, 0, 0, 0 };
	    sc_addv (sc, MOP_SET_FILTER, 9, f);
	    sc_addv (sc, MOP_SET_REPEAT, 5, rp);
	    c[13] = (int64_t)g->s[i].w * 65536 / last_sx + rng_range (r, -2, 3);
	    c[14] = (int64_t)g->s[i].h * 65536 / last_sy + rng_range (r, -1, 2);
	    sc_addv (sc, MOP_COMPOSITE, 15, c);
	}
    }
    if (rng_chance (r, 1, 4)) { gen_bits (g, 6, FC_ALPHA, 40, 12, 0x9); gen_alpha_map (g, rng_chance (r, 1, 2) ? 0 : 2, 6); }
    if (rng_chance (r, 1, 3)) gen_clip (g, 0, 0);
    for (i = 0; i < n_req; i++)
    {
	int dst = (int)rng_n (r, 2), src = 2 + (int)rng_n (r, 4), mask = rng_chance (r, 1, 3) ? 2 + (int)rng_n (r, 4) : -1;
	int roll = (int)rng_n (r, 100);
	if (roll < 60)
	{
	    gen_composite (g, 1, src, mask, dst);
	    if (rng_chance (r, 1, 3))
	    {
		/* push the request rectangle and offsets towards the limits */
		sim_op_t *op = &sc->ops[sc->n_ops - 1];
		int which = 3 + 4 + (int)rng_n (r, 6);
		op->a[which] = (rng_chance (r, 1, 2) ? 1 : -1) * rng_range (r, 32000, 70000);
		if (rng_chance (r, 1, 2)) { op->a[3 + 10] = rng_range (r, 32760, 70000); }
	    }
	}
	else if (roll < 72) gen_fill_boxes (g, dst, rng_chance (r, 1, 2), 0);
	else if (roll < 86)
	{
	    static const int tk[] = { MOP_COMPOSITE_TRAPS, MOP_COMPOSITE_TRIS, MOP_ADD_TRAPEZOIDS, MOP_ADD_TRAPS, MOP_RASTERIZE_TRAP, MOP_ADD_TRIS };
	    gen_traps (g, tk[rng_n (r, 6)], src, dst);
	    if (rng_chance (r, 1, 2))
	    {
		sim_op_t *op = &sc->ops[sc->n_ops - 1];
		int which = (int)rng_range (r, M_PREFIX + 4, op->n - 1);
		op->a[which] = (rng_chance (r, 1, 2) ? 1 : -1) * (32767ll * 65536 + rng_range (r, 0, 65535));
	    }
	}
	else
	{
	    if (!g->gc_exists[0])
	    {
		int s = gen_free_slot (g);
		gen_glyph_op (g, MOP_GC_CREATE, 0, 0, 0);
		if (s >= 0) { gen_bits (g, s, FC_ALPHA, 12, 12, 0); gen_glyph_op (g, MOP_GC_INSERT, 0, s, 0); }
	    }
	    gen_glyphs (g, 0, src, dst);
	}
    }
}

static void
generate (uint64_t seed, int tier, const char *property, scenario_t *sc)
{
    rng_t r;
    gen_t g;
    rng_seed (&r, seed, 3);
    gen_init (&g, &r, sc, 0, 0);
    if (property && !strcmp (property, "C04"))
    {
	if (rng_chance (&r, 1, 400)) { gen_c04_huge (&g, &r, sc); return; }
	switch (rng_n (&r, 8))
	{
	case 0: gen_c04_fit (&g, &r, sc); break;
	case 1: gen_c04_scaled_fit (&g, &r, sc); break;
	case 2: gen_c04_projcover (&g, &r, sc); break;
	case 3: gen_c04_rotate_fit (&g, &r, sc); break;
	case 4: table_tight = 1; gen_c02_table (&g, &r, sc); table_tight = 0; break;
	default: gen_c04 (&g, &r, sc); break;
	}
    }
    else if (property && !strcmp (property, "C19")) gen_c19 (&g, &r, sc);
    else switch (rng_n (&r, 8))
    {
    case 0: case 1: gen_c02_scaled (&g, &r, sc); break;
    case 2: gen_c02_solid_mask (&g, &r, sc); break;
    case 3: if (rng_chance (&r, 1, 2)) gen_c02_pixbuf (&g, &r, sc); else gen_c02 (&g, &r, sc); break;
    case 4: case 5: gen_c02_table (&g, &r, sc); break;
    default: gen_c02 (&g, &r, sc); break;
    }
}

static const world_t world = { "cfg", mop_names, MOP_N, generate, execute, chains_init };

int
main (int argc, char **argv)
{
    return sim_main (argc, argv, &world);
}
