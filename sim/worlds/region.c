/* World `region` — decides C06: regions stay canonical; equal() is set equality.
 *
 * Real code: pixman-region16.c / pixman-region32.c / the 16<->32 conversions
 * in pixman-utils.c.  Simulated: allocation failures as history events.
 *
 * A history is an explicit list of region operations over two pools of
 * long-lived regions (one per coordinate width).  What makes the history
 * matter is hidden state: each object's data->size capacity left over from
 * earlier results, the shared empty/broken sentinels, aliasing of result and
 * operands, and objects that went through an allocation failure earlier.
 *
 * After every op: the canonical-form invariants on every live region, and for
 * the region just written the cross invariant against every other region of
 * its pool: equal() is TRUE iff the point sets are equal, and equal point
 * sets have identical rectangle lists.  Point sets are derived from the
 * implementation's own rectangle lists (so a wrong-but-canonical result of
 * the set algebra — C05's business — is deliberately not reported here).
 */
#include "sim.h"

#define POOL 6
#define MAXB 10          /* boxes per init_rects */
#define MAXR 400         /* largest list the exact point-set comparison takes on */

enum
{
    OP_INIT_RECTS, OP_INIT_RECT, OP_INIT_EXT, OP_UNION, OP_INTERSECT, OP_SUBTRACT,
    OP_INVERSE, OP_UNION_RECT, OP_INTERSECT_RECT, OP_COPY, OP_RESET, OP_CLEAR,
    OP_TRANSLATE, OP_FROM_IMAGE, OP_CONV, N_OPS
};
static const char *op_names[N_OPS] = {
    "init_rects", "init_rect", "init_with_extents", "union", "intersect", "subtract",
    "inverse", "union_rect", "intersect_rect", "copy", "reset", "clear",
    "translate", "init_from_image", "convert"
};

/* common prefix of every op: width selector (0 = 32 bit, 1 = 16 bit),
 * fault ordinal k (0 = none), fault mode (1 single, 2 persistent) */
#define PREFIX_N 3

static int g_opi, g_fk, g_fmode;
static int suspect[2][POOL];
static long g_coincidences, g_coincidences_nonempty;

#define API_ENTER() sim_alloc_enter (g_opi, g_fmode, g_fk, ENTRY_ANY)
#define API_LEAVE() sim_alloc_leave ()

#define RW 32
#include "region_tmpl.h"
#undef RW
#define RW 16
#include "region_tmpl.h"
#undef RW

static void
execute (const scenario_t *sc, const char *property, result_t *res)
{
    int i, k;
    uint64_t h = FNV_INIT;
    int max_rects = 0;
    long faults_fired = 0, failed_ops = 0;
    char detail[256];

    sim_alloc_reset ();
    sim_alloc.tracking = 1;
    g_coincidences = g_coincidences_nonempty = 0;
    memset (suspect, 0, sizeof suspect);
    for (i = 0; i < POOL; i++) { pixman_region32_init (&r32_pool[i]); pixman_region_init (&r16_pool[i]); }

    for (i = 0; i < sc->n_ops && !res->violated; i++)
    {
	const sim_op_t *op = &sc->ops[i];
	int64_t a[SIM_MAX_ARGS];
	int n = op->n - PREFIX_N, wsel, dst = -1, ok = 1;
	memset (a, 0, sizeof a);
	if (n > 0) memcpy (a, op->a + PREFIX_N, n * sizeof (int64_t));
	if (n < 0) n = 0;
	wsel = (int)sim_mod (op->a[0], 2);
	g_opi = i;
	g_fk = (int)sim_clamp (op->a[1], 0, 1000);
	g_fmode = (int)sim_clamp (op->a[2], 0, 2);
	if (!g_fmode) g_fk = 0;
	sim_alloc.n_failed = 0;

	if (op->kind == OP_CONV)
	{
	    /* a[0] direction: 0 = 32 -> 16, 1 = 16 -> 32 */
	    int dir = (int)sim_mod (a[0], 2);
	    dst = (int)sim_mod (a[1], POOL);
	    API_ENTER ();
	    if (dir == 0) ok = pixman_region16_copy_from_region32 (&r16_pool[dst], &r32_pool[sim_mod (a[2], POOL)]);
	    else ok = pixman_region32_copy_from_region16 (&r32_pool[dst], &r16_pool[sim_mod (a[2], POOL)]);
	    API_LEAVE ();
	    wsel = dir == 0 ? 1 : 0;
	}
	else if (wsel == 0) ok = r32_exec (op->kind, a, n, &dst);
	else ok = r16_exec (op->kind, a, n, &dst);

	sim_count (op_names[op->kind], 1);
	if (sim_alloc.n_failed) { faults_fired += sim_alloc.n_failed; sim_count ("faults_fired", sim_alloc.n_failed); }
	h = fnv_u64 (h, (uint64_t)i * 64 + op->kind);
	h = fnv_u64 (h, (uint64_t)ok + 2 * (uint64_t)sim_alloc.n_allocs);
	if (dst < 0) continue;

	if (!ok || sim_alloc.n_failed)
	{
	    /* What a failed call must leave behind is C15's clause: the object is not
	     * held to the canonical-form invariants until a later op has written it
	     * successfully.  It stays in the pool, though: as an operand it makes later
	     * results fail too (they become suspect in turn), and as long as it presents
	     * itself as holding no rectangles it takes part in the equal() check as what
	     * it then is, an empty set (half of the time; otherwise it is started afresh). */
	    failed_ops++;
	    if (sim_mod (op->a[1] + i, 2))
	    {
		if (wsel == 0) pixman_region32_init (&r32_pool[dst]);
		else pixman_region_init (&r16_pool[dst]);
			suspect[wsel][dst] = 0;
		sim_count ("ops_failed_and_reinitialised", 1);
	    }
	    else
	    {
		suspect[wsel][dst] = 1;
		sim_count ("ops_failed_region_kept", 1);
		for (k = 0; k < POOL && !res->violated; k++)
		{
		    int nr = wsel == 0 ? pixman_region32_n_rects (&r32_pool[dst]) : pixman_region_n_rects (&r16_pool[dst]);
		    if (nr != 0 || suspect[wsel][k]) continue;
		    if (wsel == 0) r32_check_pair (dst, k, i, res); else r16_check_pair (dst, k, i, res);
		}
	    }
	    continue;
	}
	{
	    /* a result computed from a region that a failed call left behind is not held to
	     * the invariants either (the broken region propagates, also through calls that
	     * return TRUE, such as copy) */
	    int from_suspect = 0;
	    switch (op->kind)
	    {
	    case OP_UNION: case OP_INTERSECT: case OP_SUBTRACT:
		from_suspect = suspect[wsel][sim_mod (a[1], POOL)] || suspect[wsel][sim_mod (a[2], POOL)]; break;
	    case OP_INVERSE: case OP_UNION_RECT: case OP_INTERSECT_RECT: case OP_COPY:
		from_suspect = suspect[wsel][sim_mod (a[1], POOL)]; break;
	    case OP_CONV:
		from_suspect = suspect[1 - wsel][sim_mod (a[2], POOL)]; break;
	    case OP_TRANSLATE:
		from_suspect = suspect[wsel][dst]; break;
	    default: break;
	    }
	    suspect[wsel][dst] = from_suspect;
	    if (from_suspect) { sim_count ("results_from_suspect_operands", 1); continue; }
	}

	/* canonical form of every live region of the pool that was written */
	for (k = 0; k < POOL && !res->violated; k++)
	{
	    const char *site;
	    if (suspect[wsel][k]) continue;
	    site = wsel == 0 ? r32_canonical (&r32_pool[k], detail, sizeof detail)
					 : r16_canonical (&r16_pool[k], detail, sizeof detail);
	    if (site)
	    {
		char cls[96];
		res->op_index = i;
		snprintf (cls, sizeof cls, "C06/not-canonical-%s", site);
		sim_violation (res, "C06", cls, op_names[op->kind], "after %s: region%d R%d: %s", op_names[op->kind], wsel ? 16 : 32, k, detail);
	    }
	}
	if (res->violated) break;
	{
	    uint64_t sh = wsel == 0 ? r32_state_hash (&r32_pool[dst]) : r16_state_hash (&r16_pool[dst]);
	    int nr = wsel == 0 ? pixman_region32_n_rects (&r32_pool[dst]) : pixman_region_n_rects (&r16_pool[dst]);
	    h = fnv_u64 (h, sh);
	    sim_distinct ("canonical_states", sh);
	    if (nr > max_rects) max_rects = nr;
	}
	for (k = 0; k < POOL && !res->violated; k++)
	{
	    if (suspect[wsel][k])
	    {
		/* a region left by a failed call counts only while it shows no rectangles */
		int nr = wsel == 0 ? pixman_region32_n_rects (&r32_pool[k]) : pixman_region_n_rects (&r16_pool[k]);
		if (nr != 0) continue;
	    }
	    if (wsel == 0) r32_check_pair (dst, k, i, res);
	    else r16_check_pair (dst, k, i, res);
	}
    }

    for (i = 0; i < POOL; i++) { pixman_region32_fini (&r32_pool[i]); pixman_region_fini (&r16_pool[i]); }
    sim_alloc.tracking = 0;
    sim_count ("ops_executed", sc->n_ops);
    sim_count ("pair_coincidences", g_coincidences);
    sim_count ("pair_coincidences_nonempty", g_coincidences_nonempty);
    if (max_rects >= 8) sim_count ("runs_reaching_8_rects", 1);
    if (failed_ops) sim_count ("runs_with_failed_ops", 1);
    res->hash = h;
    res->key = h;
    /* non-trivial: some region reached >= 3 rectangles and two distinct
     * objects held the same non-empty set at some point */
    res->nontrivial = max_rects >= 3 && g_coincidences_nonempty > POOL;
}

/* ---------------------------------------------------------------- generator */

static int64_t
coord (rng_t *r, int wsel, int64_t base)
{
    return base + rng_range (r, 0, 40);
}

static void
gen_box (rng_t *r, int wsel, int64_t bx, int64_t by, int64_t *out, int allow_degenerate)
{
    int64_t x1 = coord (r, wsel, bx), y1 = coord (r, wsel, by);
    int64_t w = rng_range (r, allow_degenerate ? 0 : 1, 14), h = rng_range (r, allow_degenerate ? 0 : 1, 14);
    if (allow_degenerate && rng_chance (r, 1, 12)) w = -w;
    out[0] = x1; out[1] = y1; out[2] = x1 + w; out[3] = y1 + h;
}

static void
generate (uint64_t seed, int tier, const char *property, scenario_t *sc)
{
    rng_t r;
    int n_ops, i;
    int fault_pct, limit_pct, w16_pct;
    int64_t bx[2], by[2];
    rng_seed (&r, seed, 1);

    /* swarm: what this run is like */
    n_ops = (int)rng_range (&r, 20, tier ? 120 : 80);
    fault_pct = rng_chance (&r, 1, 2) ? 0 : (int)rng_range (&r, 1, 6);
    limit_pct = rng_chance (&r, 2, 3) ? 0 : (int)rng_range (&r, 5, 60);   /* work near the coordinate limits */
    w16_pct = (int)rng_range (&r, 0, 100);
    sc_set (sc, "fault_pct", fault_pct);
    sc_set (sc, "limit_pct", limit_pct);

    for (i = 0; i < n_ops; i++)
    {
	int64_t a[SIM_MAX_ARGS];
	int n = 0, kind, wsel = rng_n (&r, 100) < (uint32_t)w16_pct;
	int roll = rng_n (&r, 100);
	int64_t lim_hi = wsel ? 32767 : 2147483647ll, lim_lo = wsel ? -32768 : -2147483648ll;
	int k;
	/* base of the working grid for this op */
	for (k = 0; k < 2; k++)
	{
	    bx[k] = by[k] = 0;
	    if (rng_n (&r, 100) < (uint32_t)limit_pct)
	    {
		bx[k] = rng_chance (&r, 1, 2) ? lim_hi - rng_range (&r, 0, 50) : lim_lo + rng_range (&r, 0, 10);
		by[k] = rng_chance (&r, 1, 2) ? lim_hi - rng_range (&r, 0, 50) : lim_lo + rng_range (&r, 0, 10);
		if (rng_chance (&r, 1, 2)) by[k] = 0;
		else if (rng_chance (&r, 1, 2)) bx[k] = 0;
	    }
	}
	a[n++] = wsel;
	if (fault_pct && rng_n (&r, 100) < (uint32_t)fault_pct) { a[n++] = rng_range (&r, 1, 3); a[n++] = rng_range (&r, 1, 2); }
	else { a[n++] = 0; a[n++] = 0; }

	if (roll < 14) kind = OP_INIT_RECTS;
	else if (roll < 18) kind = OP_INIT_RECT;
	else if (roll < 20) kind = OP_INIT_EXT;
	else if (roll < 36) kind = OP_UNION;
	else if (roll < 46) kind = OP_INTERSECT;
	else if (roll < 58) kind = OP_SUBTRACT;
	else if (roll < 63) kind = OP_INVERSE;
	else if (roll < 70) kind = OP_UNION_RECT;
	else if (roll < 76) kind = OP_INTERSECT_RECT;
	else if (roll < 82) kind = OP_COPY;
	else if (roll < 84) kind = OP_RESET;
	else if (roll < 86) kind = OP_CLEAR;
	else if (roll < 92) kind = OP_TRANSLATE;
	else if (roll < 95) kind = OP_FROM_IMAGE;
	else kind = OP_CONV;

	switch (kind)
	{
	case OP_INIT_RECTS:
	{
	    int cnt = (int)rng_range (&r, 0, MAXB);
	    a[n++] = rng_n (&r, POOL);
	    a[n++] = cnt;
	    for (k = 0; k < cnt; k++) { gen_box (&r, wsel, bx[0], by[0], a + n, 1); n += 4; }
	    break;
	}
	case OP_INIT_RECT:
	    a[n++] = rng_n (&r, POOL); a[n++] = coord (&r, wsel, bx[0]); a[n++] = coord (&r, wsel, by[0]);
	    a[n++] = rng_range (&r, 0, 20); a[n++] = rng_range (&r, 0, 20);
	    break;
	case OP_INIT_EXT:
	    a[n++] = rng_n (&r, POOL); gen_box (&r, wsel, bx[0], by[0], a + n, 1); n += 4;
	    break;
	case OP_UNION: case OP_INTERSECT: case OP_SUBTRACT:
	    a[n++] = rng_n (&r, POOL); a[n++] = rng_n (&r, POOL); a[n++] = rng_n (&r, POOL);
	    /* force each aliasing pattern now and then */
	    switch (rng_n (&r, 8)) { case 0: a[n - 2] = a[n - 3]; break; case 1: a[n - 1] = a[n - 3]; break;
				     case 2: a[n - 1] = a[n - 2] = a[n - 3]; break; case 3: a[n - 1] = a[n - 2]; break; default: break; }
	    break;
	case OP_INVERSE:
	    a[n++] = rng_n (&r, POOL); a[n++] = rng_n (&r, POOL);
	    if (rng_chance (&r, 1, 3)) a[n - 1] = a[n - 2];
	    gen_box (&r, wsel, bx[0], by[0], a + n, 0);
	    if (rng_chance (&r, 1, 2)) { a[n + 2] = a[n] + rng_range (&r, 20, 45); a[n + 3] = a[n + 1] + rng_range (&r, 20, 45); }
	    n += 4;
	    break;
	case OP_UNION_RECT: case OP_INTERSECT_RECT:
	    a[n++] = rng_n (&r, POOL); a[n++] = rng_n (&r, POOL);
	    if (rng_chance (&r, 1, 2)) a[n - 1] = a[n - 2];
	    a[n++] = coord (&r, wsel, bx[0]); a[n++] = coord (&r, wsel, by[0]);
	    a[n++] = rng_range (&r, 0, 25); a[n++] = rng_range (&r, 0, 25);
	    break;
	case OP_COPY:
	    a[n++] = rng_n (&r, POOL); a[n++] = rng_n (&r, POOL);
	    break;
	case OP_RESET:
	    a[n++] = rng_n (&r, POOL); gen_box (&r, wsel, bx[0], by[0], a + n, 0); n += 4;
	    break;
	case OP_CLEAR:
	    a[n++] = rng_n (&r, POOL);
	    break;
	case OP_TRANSLATE:
	    a[n++] = rng_n (&r, POOL);
	    if (rng_chance (&r, 1, 2)) { a[n++] = rng_range (&r, -6, 6); a[n++] = rng_range (&r, -6, 6); }
	    else
	    {
		/* jumps of the order of the coordinate range, towards and back from the limits */
		int64_t big = wsel ? 32700 : 2147483600ll;
		a[n++] = rng_chance (&r, 1, 3) ? 0 : (rng_chance (&r, 1, 2) ? 1 : -1) * (big - rng_range (&r, 0, 120));
		a[n++] = rng_chance (&r, 1, 3) ? 0 : (rng_chance (&r, 1, 2) ? 1 : -1) * (big - rng_range (&r, 0, 120));
	    }
	    break;
	case OP_FROM_IMAGE:
	{
	    int w = (int)rng_range (&r, 1, 64), hh = (int)rng_range (&r, 1, 8);
	    a[n++] = rng_n (&r, POOL); a[n++] = w; a[n++] = hh;
	    for (k = 0; k < 16; k++)
	    {
		uint32_t v = (uint32_t)rng_u64 (&r);
		if (rng_chance (&r, 1, 3)) v &= (uint32_t)rng_u64 (&r);
		if (k >= 2 && rng_chance (&r, 1, 3)) v = (uint32_t)a[n - 2];   /* repeat the row above */
		a[n++] = v;
	    }
	    break;
	}
	case OP_CONV:
	    a[n++] = rng_n (&r, 2); a[n++] = rng_n (&r, POOL); a[n++] = rng_n (&r, POOL);
	    break;
	}
	sc_addv (sc, kind, n, a);
    }
}

static const world_t world = { "region", op_names, N_OPS, generate, execute, NULL };

int
main (int argc, char **argv)
{
    return sim_main (argc, argv, &world);
}
