/* World `fault` — decides C15: any allocation failure is survived.
 *
 * A scenario is an explicit list of API operations.  It is first run
 * fault-free to learn how many allocations each op makes (n_i).  Then, for
 * every planned fault (op i, ordinal k, single|persistent [, entry point]),
 * two machines run the same list in lock step: M0 fault-free, MF with the
 * k-th allocation of op i failing.  M0 is the oracle; it is the same code,
 * so a change in what pixman draws moves both sides together.
 *
 *   thorough: param enumerate=1 -> every (i, k <= n_i) x {single, persistent}
 *   quick:    the ops that carry a fault in their prefix, k taken modulo n_i
 */
#include "machine.h"
#include "gen.h"

static int
region_is_broken_form (machine_t *m, int width, int slot)
{
    if (width == 32)
	return pixman_region32_n_rects (&m->r32[slot]) == 0 && !pixman_region32_not_empty (&m->r32[slot]);
    return pixman_region_n_rects (&m->r16[slot]) == 0 && !pixman_region_not_empty (&m->r16[slot]);
}


/* "later operations propagate the broken region, fini accepts it": every
 * binary operation with the broken region in either operand position must
 * yield the broken region again (n_rects 0, selfcheck FALSE). */
#define DEFINE_PROPAGATE(NAME, RT, REGION_T, BOX_T)							\
static const char *											\
NAME (REGION_T *broken)											\
{													\
    static const char *names[6] = { "union(broken,r)", "union(r,broken)", "intersect(broken,r)",	\
				    "intersect(r,broken)", "subtract(broken,r)", "subtract(r,broken)" };	\
    BOX_T b = { 0, 0, 5, 5 };										\
    int i;												\
    for (i = 0; i < 6; i++)										\
    {													\
	REGION_T t, u;											\
	int isb;											\
	RT##_init (&t);											\
	RT##_init_with_extents (&u, &b);								\
	switch (i)											\
	{												\
	case 0: RT##_union (&t, broken, &u); break;							\
	case 1: RT##_union (&t, &u, broken); break;							\
	case 2: RT##_intersect (&t, broken, &u); break;						\
	case 3: RT##_intersect (&t, &u, broken); break;						\
	case 4: RT##_subtract (&t, broken, &u); break;							\
	default: RT##_subtract (&t, &u, broken); break;						\
	}												\
	isb = RT##_n_rects (&t) == 0 && !RT##_selfcheck (&t);						\
	RT##_fini (&t);											\
	RT##_fini (&u);											\
	if (!isb) return names[i];									\
    }													\
    return NULL;											\
}
DEFINE_PROPAGATE (propagate32, pixman_region32, pixman_region32_t, pixman_box32_t)
DEFINE_PROPAGATE (propagate16, pixman_region, pixman_region16_t, pixman_box16_t)

static int
regions_equal (machine_t *a, machine_t *b, int width, int slot)
{
    return machine_hash_region (a, width, slot, FNV_INIT) == machine_hash_region (b, width, slot, FNV_INIT);
}

/* MF's region := M0's, by the harness, fault-free */
static void
region_repair (machine_t *m0, machine_t *mf, int width, int slot, int tag)
{
    sim_alloc_enter (tag, FAULT_NONE, 0, 0);
    if (width == 32)
    {
	pixman_region32_fini (&mf->r32[slot]);
	pixman_region32_init (&mf->r32[slot]);
	pixman_region32_copy (&mf->r32[slot], &m0->r32[slot]);
    }
    else
    {
	pixman_region_fini (&mf->r16[slot]);
	pixman_region_init (&mf->r16[slot]);
	pixman_region_copy (&mf->r16[slot], &m0->r16[slot]);
    }
    sim_alloc_leave ();
}

/* rectangle of destination pixels the request may touch, in bytes per row;
 * returns 0 for "whole image" */
static int
permitted_rect (const sim_op_t *op, const mslot_t *d, int *x0, int *y0, int *x1, int *y1)
{
    const int64_t *a = op->a + M_PREFIX;
    int n = op->n - M_PREFIX;
#define AA(i) ((i) < n ? a[(i)] : 0)
    if (op->kind == MOP_COMPOSITE)
    {
	int64_t dx = sim_clamp (AA (8), -100000, 100000), dy = sim_clamp (AA (9), -100000, 100000);
	int64_t w = sim_clamp (AA (10), 0, 100000), h = sim_clamp (AA (11), 0, 100000);
	*x0 = (int)sim_clamp (dx, 0, d->w); *y0 = (int)sim_clamp (dy, 0, d->h);
	*x1 = (int)sim_clamp (dx + w, 0, d->w); *y1 = (int)sim_clamp (dy + h, 0, d->h);
	return 1;
    }
    if (op->kind == MOP_FILL)
    {
	int x = (int)sim_clamp (AA (1), 0, d->w), y = (int)sim_clamp (AA (2), 0, d->h);
	*x0 = x; *y0 = y;
	*x1 = x + (int)sim_clamp (AA (3), 0, d->w - x); *y1 = y + (int)sim_clamp (AA (4), 0, d->h - y);
	return 1;
    }
    return 0;
#undef AA
}

/* bytes of MF's slot outside the permitted rectangle must be what they were
 * before the op (pre), unless the fault-free machine changed them too.
 * Returns -1 if fine, else the byte offset. */
static long
confined (const mslot_t *d, const uint8_t *pre, const uint8_t *post_f, const uint8_t *post_0,
	  int have_rect, int x0, int y0, int x1, int y1)
{
    int bpp = PIXMAN_FORMAT_BPP (d->fmt), s = d->stride < 0 ? -d->stride : d->stride, y;
    long bx0 = 0, bx1 = 0;
    if (!have_rect) return -1;
    bx0 = ((long)x0 * bpp) / 8;
    bx1 = ((long)x1 * bpp + 7) / 8;
    for (y = 0; y < d->h; y++)
    {
	/* row y of the image lives at memory row (stride<0 ? h-1-y : y) */
	int my = d->stride < 0 ? d->h - 1 - y : y;
	long off = (long)my * s, i;
	int inrow = y >= y0 && y < y1 && x1 > x0;
	for (i = 0; i < s; i++)
	{
	    if (inrow && i >= bx0 && i < bx1) continue;
	    if (post_f[off + i] != pre[off + i] && post_f[off + i] != post_0[off + i]) return off + i;
	}
    }
    return -1;
}

/* does this fill_boxes / fill_rectangles request qualify for the direct-fill
 * shortcut (operator reducible to SRC, colour expressible as a pixel of the
 * destination format, no alpha map, no accessors)?  There every allocation is
 * checked by the function itself, whereas the compositing it otherwise
 * delegates to is void and may skip work silently. */
static int
direct_fill_eligible (machine_t *m, const sim_op_t *op)
{
    const int64_t *a = op->a + M_PREFIX;
    int n = op->n - M_PREFIX;
    pixman_op_t pop;
    const mslot_t *d;
    if (op->kind != MOP_FILL_BOXES && op->kind != MOP_FILL_RECTS) return 0;
    if (n < 3) return 0;
    pop = sim_ops[sim_mod (a[0], sim_n_ops)];
    d = &m->img[sim_mod (a[1], M_NIMG)];
    if (!(pop == PIXMAN_OP_SRC || pop == PIXMAN_OP_CLEAR || (pop == PIXMAN_OP_OVER && sim_mod (a[2], 65536) == 0xffff))) return 0;
    if (d->has_alpha >= 0 || d->accessors) return 0;
    switch (d->fmt)
    {
    case PIXMAN_a8r8g8b8: case PIXMAN_x8r8g8b8: case PIXMAN_a8b8g8r8: case PIXMAN_x8b8g8r8:
    case PIXMAN_b8g8r8a8: case PIXMAN_b8g8r8x8: case PIXMAN_r8g8b8a8: case PIXMAN_r8g8b8x8:
    case PIXMAN_r5g6b5: case PIXMAN_b5g6r5: case PIXMAN_a8: case PIXMAN_a1:
	return 1;
    default:
	return 0;
    }
}

/* what does the cache hold for this key?  Draw the glyph (white, OVER) onto a cleared
 * 24x24 a8r8g8b8 image by the library's own glyph call. */
static void
probe_glyph (machine_t *m, int c, int font, int glyph, uint32_t *out)
{
    pixman_color_t white = { 0xffff, 0xffff, 0xffff, 0xffff };
    pixman_image_t *src = pixman_image_create_solid_fill (&white);
    pixman_image_t *dst = pixman_image_create_bits (PIXMAN_a8r8g8b8, 24, 24, out, 24 * 4);
    pixman_glyph_t g;
    memset (out, 0, 24 * 24 * 4);
    if (src && dst && m->gc[c])
    {
	pixman_glyph_cache_freeze (m->gc[c]);
	g.glyph = pixman_glyph_cache_lookup (m->gc[c], (void *)(uintptr_t)font, (void *)(uintptr_t)glyph);
	g.x = 8; g.y = 8;
	if (g.glyph) pixman_composite_glyphs_no_mask (PIXMAN_OP_OVER, src, dst, 0, 0, 0, 0, m->gc[c], 1, &g);
	pixman_glyph_cache_thaw (m->gc[c]);
    }
    if (src) pixman_image_unref (src);
    if (dst) pixman_image_unref (dst);
}

typedef struct { int i, k, mode, entry; } plan_t;

static uint64_t
lockstep (const scenario_t *sc, const plan_t *pl, result_t *res, long *fired_out)
{
    machine_t *m0, *mf;
    uint64_t h = FNV_INIT;
    int j, fired_total = 0, tainted = 0;
    int reissue = (int)sc_get (sc, "reissue", 1);
    char site[96];

    sim_alloc_reset ();
    sim_alloc.tracking = 1;
    m0 = machine_new (0, 0, -1);
    mf = machine_new (1, 0, -1);

    for (j = 0; j < sc->n_ops && !res->violated; j++)
    {
	sim_op_t op0 = sc->ops[j], opf = sc->ops[j];
	mstep_t s0, sf;
	uint8_t *pre = NULL, *pre2 = NULL;
	const void *fail_site = NULL;
	int fired;

	if (op0.n < M_PREFIX) { op0.n = opf.n = M_PREFIX; }
	op0.a[0] = op0.a[1] = op0.a[2] = 0;
	opf.a[0] = opf.a[1] = opf.a[2] = 0;
	if (j == pl->i) { opf.a[0] = pl->k; opf.a[1] = pl->mode; opf.a[2] = pl->entry; }

	/* "every object remains safe to use afterwards" also for a caller that does NOT
	 * repeat a failed setter: for set_transform / set_filter, when the scenario says
	 * so, the faulted side goes first and, if the call failed, the fault-free side
	 * leaves the call out too.  Pixel differences are not judged from then on (the
	 * property does not say which value a failed setter leaves), crashes, leaks and
	 * invalid frees still are. */
	if (j == pl->i && !reissue && (op0.kind == MOP_SET_TRANSFORM || op0.kind == MOP_SET_FILTER))
	{
	    sim_alloc.bad_free = 0; sim_alloc.bad_free_site = NULL;
	    machine_step (mf, &opf, 2 * j + 1, &sf);
	    fired_total += sf.n_failed;
	    if (sf.executed && !sf.ret && sf.n_failed)
	    {
		tainted = 1;
		sim_count ("failed_setter_not_reissued", 1);
		if (sim_alloc.bad_free)
		    sim_violation (res, "C15", "C15/invalid-or-double-free", mop_names[op0.kind], "invalid free (site %p) in a failing %s", sim_alloc.bad_free_site, mop_names[op0.kind]);
		continue;
	    }
	    machine_step (m0, &op0, 2 * j, &s0);
	    if (sf.executed) h = fnv_u64 (h, ((uint64_t)j << 8) ^ (uint64_t)(sf.ret & 1));
	    continue;
	}
	machine_step (m0, &op0, 2 * j, &s0);
	if (j == pl->i && s0.is_draw && s0.dst_slot >= 0)
	{
	    pre = machine_snapshot (mf, s0.dst_slot);
	    if (s0.dst2_slot >= 0) pre2 = machine_snapshot (mf, s0.dst2_slot);
	}
	sim_alloc.bad_free = 0;
	sim_alloc.bad_free_site = NULL;
	machine_step (mf, &opf, 2 * j + 1, &sf);
	fail_site = sim_alloc.first_fail_site;
	fired = sf.n_failed;
	fired_total += fired;
	res->op_index = j;
	snprintf (site, sizeof site, "%s", mop_names[op0.kind]);

	if (sim_alloc.bad_free)
	{
	    sim_violation (res, "C15", "C15/invalid-or-double-free", site,
			   "free/realloc of a pointer that is not a live block (site %p) during op %d (%s), fault k=%d mode=%d at op %d",
			   sim_alloc.bad_free_site, j, mop_names[op0.kind], pl->k, pl->mode, pl->i);
	    break;
	}
	if (s0.executed != sf.executed)
	{
	    sim_violation (res, "C15", "C15/object-unusable-after-fault", site,
			   "op %d (%s) ran on the fault-free side but its operands no longer exist on the faulted side (fault at op %d k=%d)",
			   j, mop_names[op0.kind], pl->i, pl->k);
	    break;
	}
	if (!s0.executed) { free (pre); free (pre2); continue; }
	h = fnv_u64 (h, ((uint64_t)j << 8) ^ (uint64_t)(sf.ret & 1) ^ ((uint64_t)fired << 1));

	if (!fired)
	{
	    /* no fault reached this call: it must be indistinguishable from M0's */
	    if (s0.has_status && s0.ret != sf.ret)
	    {
		sim_violation (res, "C15", j > pl->i ? "C15/later-call-fails-after-fault" : "C15/failure-without-fault", site,
			       "op %d (%s) returned %d without a failing allocation, fault-free run returned %d (fault at op %d k=%d mode=%d)",
			       j, mop_names[op0.kind], sf.ret, s0.ret, pl->i, pl->k, pl->mode);
		break;
	    }
	}
	else
	{
	    sim_count ("faulted_calls", 1);
	    if (s0.has_status && sf.ret && !s0.ret)
	    {
		/* cannot happen unless the harness is confused */
		sim_count ("faulted_call_succeeded_where_clean_failed", 1);
	    }
	    if (s0.has_status && !sf.ret) sim_count ("failure_reported", 1);
	    if (!s0.has_status || sf.ret) sim_count ("fault_absorbed", 1);
	}

	if (fired && op0.kind == MOP_GC_INSERT && sf.ret && s0.ret && op0.n >= M_PREFIX + 3)
	{
	    /* insert said "done" although an allocation failed in it: the cached copy must be complete */
	    static uint32_t p0[24 * 24], pf[24 * 24];
	    int c = (int)sim_mod (op0.a[M_PREFIX], M_NGC), fk = (int)(1 + sim_mod (op0.a[M_PREFIX + 1], 64)), gk = (int)(1 + sim_mod (op0.a[M_PREFIX + 2], 64));
	    sim_alloc_enter (2 * j, FAULT_NONE, 0, 0); probe_glyph (m0, c, fk, gk, p0); sim_alloc_leave ();
	    sim_alloc_enter (2 * j + 1, FAULT_NONE, 0, 0); probe_glyph (mf, c, fk, gk, pf); sim_alloc_leave ();
	    if (memcmp (p0, pf, sizeof p0))
	    {
		char st[128];
		snprintf (st, sizeof st, "gc_insert@%p", fail_site);
		sim_violation (res, "C15", "C15/success-reported-but-work-skipped", st,
			       "op %d: pixman_glyph_cache_insert returned a glyph although allocation k=%d (mode %d) failed in it, and the cached glyph draws differently from the fault-free one",
			       j, pl->k, pl->mode);
		break;
	    }
	}

	/* ---- state after the call */
	if (s0.region_written)
	{
	    int w = s0.region_written, r = s0.region_slot;
	    if (fired && s0.has_status && !sf.ret && s0.ret)
	    {
		int is_conv = op0.kind == MOP_R_CONV;
		if (!region_is_broken_form (mf, w, r) && !is_conv)
		{
		    sim_violation (res, "C15", "C15/failed-region-not-broken", site,
				   "%s returned FALSE after a failed allocation but the result is not the broken region (n_rects=%d)",
				   mop_names[op0.kind], w == 32 ? pixman_region32_n_rects (&mf->r32[r]) : pixman_region_n_rects (&mf->r16[r]));
		    break;
		}
		if (region_is_broken_form (mf, w, r) && !is_conv)
		{
		    /* later operations propagate the broken region, fini accepts it */
		    const char *bad;
		    sim_alloc_enter (2 * j + 1, FAULT_NONE, 0, 0);
		    bad = w == 32 ? propagate32 (&mf->r32[r]) : propagate16 (&mf->r16[r]);
		    sim_alloc_leave ();
		    if (bad)
			sim_violation (res, "C15", "C15/broken-region-not-propagated", bad,
				       "%s with the broken region%d as an operand did not give the broken region", bad, w);
		    sim_count ("broken_region_checked", 1);
		}
		region_repair (m0, mf, w, r, 2 * j + 1);
	    }
	    else if (!regions_equal (m0, mf, w, r))
	    {
		sim_violation (res, "C15", fired ? "C15/region-differs-after-absorbed-fault" : "C15/state-diverged-after-fault", site,
			       "region%d slot %d differs from the fault-free run after op %d (%s), ret=%d (fault at op %d k=%d mode=%d)",
			       w, r, j, mop_names[op0.kind], sf.ret, pl->i, pl->k, pl->mode);
		break;
	    }
	}
	else if (fired && s0.has_status && !sf.ret && s0.ret && !s0.is_draw)
	{
	    /* constructor or setter reported failure: the caller re-issues the call */
	    mstep_t s2;
	    machine_step (mf, &op0, 2 * j + 1, &s2);
	    sim_count ("reissued_after_failure", 1);
	    if (!s2.executed || !s2.ret)
	    {
		sim_violation (res, "C15", "C15/reissue-fails-after-fault", site,
			       "op %d (%s) failed under a fault and fails again when re-issued without one (executed=%d ret=%d)",
			       j, mop_names[op0.kind], s2.executed, s2.ret);
		break;
	    }
	}

	if (s0.is_draw && s0.dst_slot >= 0)
	{
	    int d = s0.dst_slot, dd;
	    for (dd = 0; dd < 2; dd++)
	    {
		int slot = dd ? s0.dst2_slot : d;
		uint8_t *p = dd ? pre2 : pre;
		if (slot < 0) continue;
		if (fired && s0.has_status && sf.ret && s0.ret && machine_compare_slot (m0, mf, slot) >= 0)
		{
		    /* a call WITH a status result said TRUE although an allocation failed in it:
		     * then it must have done its work ("other functions with a status result
		     * report failure"; only void drawing functions may skip work silently) */
		    char st[128];
		    /* the driver turns the address of the failing allocation's caller into a function name */
		    snprintf (st, sizeof st, "%s%s@%p", mop_names[op0.kind], direct_fill_eligible (mf, &op0) ? "+direct-fill" : "", fail_site);
		    sim_violation (res, "C15", "C15/success-reported-but-work-skipped", st,
				   "op %d (%s) returned TRUE although allocation k=%d (mode %d) failed in it, and slot %d differs from the fault-free run: work was skipped silently",
				   j, mop_names[op0.kind], pl->k, pl->mode, slot);
		    break;
		}
		if (fired)
		{
		    int x0 = 0, y0 = 0, x1 = 0, y1 = 0;
		    int have = dd == 0 && mf->img[slot].has_alpha < 0 ? permitted_rect (&op0, &mf->img[slot], &x0, &y0, &x1, &y1) : 0;
		    long off = p ? confined (&mf->img[slot], p, mf->img[slot].lowest, m0->img[slot].lowest, have, x0, y0, x1, y1) : -1;
		    if (off >= 0)
		    {
			sim_violation (res, "C15", "C15/write-outside-permitted-region-under-fault", site,
				       "op %d (%s) with a failed allocation changed byte %ld of slot %d, outside the request rectangle and unlike the fault-free run",
				       j, mop_names[op0.kind], off, slot);
			break;
		    }
		    /* inside the permitted region the values are not constrained; bring the
		     * two sides back in step and carry on */
		    machine_restore (mf, slot, m0->img[slot].lowest);
		}
		else if (tainted && machine_compare_slot (m0, mf, slot) >= 0)
		    machine_restore (mf, slot, m0->img[slot].lowest);
		else if (machine_compare_slot (m0, mf, slot) >= 0)
		{
		    sim_violation (res, "C15", "C15/state-diverged-after-fault", site,
				   "pixels of slot %d differ from the fault-free run after op %d (%s) although no allocation failed in it (fault was at op %d k=%d mode=%d)",
				   slot, j, mop_names[op0.kind], pl->i, pl->k, pl->mode);
		    break;
		}
	    }
	}
	if (machine_check_canaries (mf))
	    sim_violation (res, "C15", "C15/write-outside-storage-under-fault", site, "%s", mf->canary_detail);
	free (pre); free (pre2);
    }

    /* every object is still safe to destroy; nothing may stay allocated */
    if (!res->violated)
    {
	int i;
	for (i = 0; i < M_NIMG && !res->violated && !tainted; i++)
	    if (machine_compare_slot (m0, mf, i) >= 0)
		sim_violation (res, "C15", "C15/state-diverged-after-fault", "end-of-scenario",
			       "slot %d differs from the fault-free run at the end (fault at op %d k=%d mode=%d)", i, pl->i, pl->k, pl->mode);
    }
    sim_alloc.bad_free = 0;
    machine_free (mf);
    machine_free (m0);
    if (!res->violated && sim_alloc.bad_free)
	sim_violation (res, "C15", "C15/invalid-or-double-free", "destroy", "invalid free (site %p) while destroying the objects after fault at op %d k=%d mode=%d",
		       sim_alloc.bad_free_site, pl->i, pl->k, pl->mode);
    if (!res->violated && sim_alloc.live_blocks)
    {
	const void *sites[8]; size_t sizes[8]; int ops[8];
	int c = sim_alloc_live_sites (sites, sizes, ops, 8), i, mine = 0, first = -1;
	for (i = 0; i < c && i < 8; i++) if (ops[i] >= 0 && (ops[i] & 1)) { mine++; if (first < 0) first = i; }
	if (mine)
	{
	    res->op_index = ops[first] / 2;
	    snprintf (site, sizeof site, "%s", mop_names[sc->ops[ops[first] / 2].kind]);
	    sim_violation (res, "C15", "C15/leak-after-fault", site,
			   "%d block(s) still allocated after everything was destroyed; first: %zu bytes from op %d (site %p); fault at op %d k=%d mode=%d",
			   mine, sizes[first], ops[first] / 2, sites[first], pl->i, pl->k, pl->mode);
	}
	else sim_count ("fault_free_leaks_ignored", 1);
    }
    sim_alloc.tracking = 0;
    arena_free_all ();
    *fired_out += fired_total;
    h = fnv_u64 (h, (uint64_t)fired_total);
    return h;
}

static void
execute (const scenario_t *sc, const char *property, result_t *res)
{
    int *n0 = calloc (sc->n_ops + 1, sizeof (int));
    int j, enumerate = (int)sc_get (sc, "enumerate", 0), np = 0, cap = 0;
    plan_t *plan = NULL;
    uint64_t h = FNV_INIT;
    long fired = 0;
    machine_t *m;

    /* pass 0: fault-free, to learn the allocation counts */
    sim_alloc_reset ();
    sim_alloc.tracking = 1;
    m = machine_new (0, 0, -1);
    for (j = 0; j < sc->n_ops; j++)
    {
	mstep_t st;
	sim_op_t op = sc->ops[j];
	if (op.n < M_PREFIX) op.n = M_PREFIX;
	op.a[0] = op.a[1] = op.a[2] = 0;
	machine_step (m, &op, 2 * j, &st);
	n0[j] = st.executed ? st.n_allocs : 0;
	if (st.executed) sim_count (mop_names[op.kind], 1);
	h = fnv_u64 (h, (uint64_t)n0[j] * 4 + st.ret * 2 + st.executed);
    }
    h = machine_hash_all (m, h);
    machine_free (m);
    if (sim_alloc.live_blocks) sim_count ("scenarios_leaking_fault_free", 1);
    sim_alloc.tracking = 0;
    arena_free_all ();

#define ADD(I, K, M, E) do { if (np == cap) { cap = cap ? 2 * cap : 64; plan = realloc (plan, cap * sizeof *plan); } \
			     plan[np].i = (I); plan[np].k = (K); plan[np].mode = (M); plan[np].entry = (E); np++; } while (0)
    for (j = 0; j < sc->n_ops; j++)
    {
	if (n0[j] == 0) continue;
	sim_count ("ops_with_allocations", 1);
	if (enumerate)
	{
	    int k;
	    for (k = 1; k <= n0[j]; k++) { ADD (j, k, FAULT_SINGLE, 0); ADD (j, k, FAULT_PERSISTENT, 0); }
	}
	else if (sc->ops[j].n >= M_PREFIX && sc->ops[j].a[0] > 0 && sc->ops[j].a[1] > 0)
	{
	    /* fault ordinal interpreted modulo the allocations the op makes */
	    int k = 1 + (int)sim_mod (sc->ops[j].a[0] - 1, n0[j]);
	    ADD (j, k, (int)sim_clamp (sc->ops[j].a[1], 1, 2), (int)sim_clamp (sc->ops[j].a[2], 0, 3));
	}
    }
    for (j = 0; j < np && !res->violated; j++)
    {
	h = fnv_u64 (h, lockstep (sc, &plan[j], res, &fired));
	sim_count ("faulted_executions", 1);
    }
    sim_count ("faults_fired", fired);
    sim_count ("ops_executed", sc->n_ops);
    free (plan);
    free (n0);
    res->hash = h;
    res->key = h;
    res->nontrivial = fired > 0;
}

/* ---------------------------------------------------------------- generator */

static void
generate (uint64_t seed, int tier, const char *property, scenario_t *sc)
{
    rng_t r;
    gen_t g;
    int n_ops, i, wide_run, fault_pct;
    rng_seed (&r, seed, 2);
    sc_set (sc, "enumerate", tier ? 1 : 0);
    sc_set (sc, "reissue", rng_chance (&r, 1, 2));
    fault_pct = tier ? 0 : (int)rng_range (&r, 25, 60);
    gen_init (&g, &r, sc, fault_pct, 6);
    n_ops = (int)rng_range (&r, 5, 25);
    wide_run = rng_chance (&r, 1, 5);         /* images wide enough for the heap scanline buffer */

    /* a few images to start with */
    gen_bits (&g, 0, FC_ANY, wide_run ? 2200 : 70, wide_run ? 2 : 24, 0xf);
    if (wide_run) gen_bits_exact (&g, 0 == 0 ? 1 : 1, gen_pick_format (&g, rng_chance (&r, 1, 2) ? FC_32 : FC_WIDE), (int)rng_range (&r, 2050, 2300), 1, 0, 0, 0, 0);
    else gen_bits (&g, 1, FC_ANY, 70, 24, 0xf);
    gen_source (&g, 2, FC_ANY, 40);
    if (rng_chance (&r, 1, 3)) gen_bits (&g, 3, FC_32, 40, 12, 0x8);

    for (i = 0; i < n_ops; i++)
    {
	int roll = (int)rng_n (&r, 100);
	int dst = gen_find (&g, 1, 1), src = gen_find (&g, 0, 1), mask = rng_chance (&r, 1, 3) ? gen_find (&g, 0, 1) : -1;
	int fs = gen_free_slot (&g);
	if (roll < 10 && fs >= 0) gen_source (&g, fs, FC_ANY, 60);
	else if (roll < 14 && fs >= 0) gen_bits (&g, fs, rng_chance (&r, 1, 2) ? FC_WIDE : FC_ANY, 80, 10, 0xf);
	else if (roll < 18 && src >= 0) gen_unref (&g, src);
	else if (roll < 24 && src >= 0) gen_transform (&g, src, TC_ANY);
	else if (roll < 30 && src >= 0) gen_filter (&g, src, 1);
	else if (roll < 33 && src >= 0) gen_repeat (&g, src);
	else if (roll < 40 && src >= 0) gen_clip (&g, src, 1);
	else if (roll < 43 && src >= 0) gen_misc_prop (&g, src);
	else if (roll < 47 && dst >= 0) { int mp = gen_find (&g, 1, 1); if (mp >= 0 && mp != dst) gen_alpha_map (&g, dst, rng_chance (&r, 1, 5) ? -1 : mp); }
	else if (roll < 50 && dst >= 0 && src >= 0 && g.s[src].kind == MOP_BITS && (sim_formats[g.s[src].fmt_idx] == PIXMAN_a8r8g8b8 || sim_formats[g.s[src].fmt_idx] == PIXMAN_x8r8g8b8))
	    gen_cover_bilinear (&g, src, dst);
	else if (roll < 62 && dst >= 0 && src >= 0) gen_composite (&g, 1, src, mask, dst);
	else if (roll < 67 && dst >= 0) gen_fill_boxes (&g, dst, rng_chance (&r, 1, 2), 1);
	else if (roll < 69 && dst >= 0) gen_fill (&g, dst);
	else if (roll < 76 && dst >= 0 && src >= 0)
	{
	    static const int tk[] = { MOP_ADD_TRAPS, MOP_ADD_TRAPEZOIDS, MOP_RASTERIZE_TRAP, MOP_COMPOSITE_TRAPS, MOP_COMPOSITE_TRAPS, MOP_COMPOSITE_TRIS, MOP_ADD_TRIS };
	    gen_traps (&g, tk[rng_n (&r, 7)], src, dst);
	}
	else if (roll < 86)
	{
	    int c = (int)rng_n (&r, M_NGC);
	    if (!g.gc_exists[c]) gen_glyph_op (&g, MOP_GC_CREATE, c, 0, 0);
	    else switch (rng_n (&r, 8))
	    {
	    case 0: gen_glyph_op (&g, MOP_GC_FREEZE, c, 0, 0); break;
	    case 1: gen_glyph_op (&g, MOP_GC_THAW, c, 0, 0); break;
	    case 2: gen_glyph_op (&g, MOP_GC_REMOVE, c, 0, 0); break;
	    case 3: case 4: { int gi = gen_find (&g, 1, 1); if (gi >= 0) gen_glyph_op (&g, MOP_GC_INSERT, c, gi, 0); break; }
	    case 5: if (rng_chance (&r, 1, 3)) gen_glyph_op (&g, MOP_GC_DESTROY, c, 0, 0); break;
	    default: if (dst >= 0 && src >= 0) gen_glyphs (&g, c, src, dst); break;
	    }
	}
	else if (roll < 96) gen_region_op (&g);
	else if (roll < 98) gen_misc_alloc_op (&g, MOP_FILTER_CREATE, 0, 0, 0);
	else if (dst >= 0 && src >= 0) gen_misc_alloc_op (&g, MOP_COMPUTE_REGION, src, mask, dst);
    }
    /* quick tier: plain constructors are over-represented among the ops that allocate;
     * thin their sampled faults out in favour of the drawing and region calls */
    for (i = 0; i < sc->n_ops; i++)
    {
	sim_op_t *op = &sc->ops[i];
	int plain = op->kind <= MOP_CONICAL || op->kind == MOP_GC_CREATE || op->kind == MOP_SET_TRANSFORM || op->kind == MOP_SET_FILTER;
	if (plain && op->a[0] && !rng_chance (&r, 1, 4)) op->a[0] = op->a[1] = op->a[2] = 0;
	if (!plain && !op->a[0] && !tier && rng_chance (&r, 1, 2)) { op->a[0] = rng_range (&r, 1, 8); op->a[1] = rng_range (&r, 1, 2); op->a[2] = 0; }
    }
}

static const world_t world = { "fault", mop_names, MOP_N, generate, execute, chains_init };

int
main (int argc, char **argv)
{
    return sim_main (argc, argv, &world);
}
