/* World `sample` — decides C08: transformed sources are sampled at the
 * documented position, filter and repeat, whichever internal fetcher is used.
 *
 * The configuration axis ("whichever fetcher": general per-pixel fetcher, C
 * scaled nearest/bilinear loops, affine and separable-convolution fetchers,
 * SSE2 and SSSE3 fetchers, with and without wholeops) is enumerated over all
 * 32 chains.  What the result is compared with is a reference sampler written
 * from the property statement and pixman/rounding.txt:
 *
 *   position of destination pixel (X, Y) = M * (X + 1/2, Y + 1/2, 1), in 16.16
 *   NEAREST      floor (x - 1/65536)
 *   BILINEAR     x - 1/2; 7-bit weights from bits 15..9 of the fraction;
 *                four neighbours through the repeat map; per channel
 *                (sum of weight products * value) >> 14           -- exact
 *   CONVOLUTION  first tap at floor (x - (w-1)/2 - 1/65536)       -- +-1
 *   SEPARABLE    as above after rounding x to the centre of its phase  -- +-1
 *   repeat       NONE transparent, NORMAL modulo, PAD clamp, REFLECT mirror
 *
 * Scope: OP_SRC, no mask, no alpha map, a8r8g8b8 destination, sources
 * a8r8g8b8 / x8r8g8b8 / a8 / r5g6b5.
 */
#include "sim.h"
#include "machine.h"

enum { S_SRC, S_TRANSFORM, S_FILTER, S_REPEAT, S_REQUEST, S_N };
static const char *op_names[S_N] = { "src", "transform", "filter", "repeat", "request" };

#define DW 40
#define DH 12
#define MAXK 5

/* the fifth goes through the wide (floating point) pipeline */
static const pixman_format_code_t sfmts[5] = { PIXMAN_a8r8g8b8, PIXMAN_x8r8g8b8, PIXMAN_a8, PIXMAN_r5g6b5, PIXMAN_a2r10g10b10 };

typedef struct
{
    pixman_format_code_t fmt;
    int w, h, stride;           /* stride in bytes */
    uint8_t *bits;
    int64_t m[9];
    int has_transform;
    int filter, cw, ch, xb, yb;
    pixman_fixed_t params[4 + 4 * MAXK + 4 * MAXK + MAXK * MAXK];
    int n_params;
    int repeat;
} scene_t;

static void decode_scene_upto (const scenario_t *sc, scene_t *s, int upto, pixman_image_t *img);

/* ------------------------------------------------------------ reference */

static int
map_coord (int c, int size, int repeat, int *out)
{
    switch (repeat)
    {
    case PIXMAN_REPEAT_NONE:
	if (c < 0 || c >= size) return 0;
	break;
    case PIXMAN_REPEAT_NORMAL:
	c = (int)sim_mod (c, size);
	break;
    case PIXMAN_REPEAT_PAD:
	c = c < 0 ? 0 : c >= size ? size - 1 : c;
	break;
    case PIXMAN_REPEAT_REFLECT:
	c = (int)sim_mod (c, 2 * size);
	if (c >= size) c = 2 * size - c - 1;
	break;
    }
    *out = c;
    return 1;
}

/* value of source pixel (x, y) as a8r8g8b8, after the repeat map */
static uint32_t
ref_pixel (const scene_t *s, int x, int y)
{
    const uint8_t *row;
    if (!map_coord (x, s->w, s->repeat, &x) || !map_coord (y, s->h, s->repeat, &y)) return 0;
    row = s->bits + (long)y * s->stride;
    switch (s->fmt)
    {
    case PIXMAN_a8r8g8b8: return ((const uint32_t *)row)[x];
    case PIXMAN_x8r8g8b8: return ((const uint32_t *)row)[x] | 0xff000000u;
    case PIXMAN_a8: return (uint32_t)row[x] << 24;
    default:
    {
	uint32_t p = ((const uint16_t *)row)[x];
	uint32_t r = (p >> 11) & 0x1f, g = (p >> 5) & 0x3f, b = p & 0x1f;
	r = (r << 3) | (r >> 2); g = (g << 2) | (g >> 4); b = (b << 3) | (b >> 2);      /* bit replication */
	return 0xff000000u | (r << 16) | (g << 8) | b;
    }
    }
}

typedef struct { int judged; uint32_t value; int tol; } ref_t;

/* a2r10g10b10 source pixel as four components in [0,1] (a, r, g, b), after the repeat map */
static void
ref_pixel_wide (const scene_t *s, int x, int y, double out[4])
{
    uint32_t p;
    out[0] = out[1] = out[2] = out[3] = 0;
    if (!map_coord (x, s->w, s->repeat, &x) || !map_coord (y, s->h, s->repeat, &y)) return;
    p = ((const uint32_t *)(s->bits + (long)y * s->stride))[x];
    out[0] = (p >> 30) / 3.0; out[1] = ((p >> 20) & 0x3ff) / 1023.0; out[2] = ((p >> 10) & 0x3ff) / 1023.0; out[3] = (p & 0x3ff) / 1023.0;
}

/* what the wide pipeline stores into an 8-bit channel: floor (f * 256), 256 brought back to 255 */
static uint32_t
wide_to_8 (double f)
{
    uint32_t u;
    if (f <= 0) return 0;
    if (f >= 1) return 255;
    u = (uint32_t)(f * 256.0);
    return u - (u >> 8);
}

static ref_t
ref_sample (const scene_t *s, int X, int Y)
{
    ref_t out = { 1, 0, 0 };
    int64_t vx = ((int64_t)X << 16) + 0x8000, vy = ((int64_t)Y << 16) + 0x8000, vw = 0x10000;
    int64_t r0, r1, r2;
    int64_t px, py;           /* position in 16.16 */
    int projective;
    int filter = s->filter;
    const int64_t *m = s->m;

    if (s->has_transform)
    {
	r0 = m[0] * vx + m[1] * vy + m[2] * vw;
	r1 = m[3] * vx + m[4] * vy + m[5] * vw;
	r2 = m[6] * vx + m[7] * vy + m[8] * vw;
    }
    else { r0 = vx << 16; r1 = vy << 16; r2 = vw << 16; }
    projective = s->has_transform && !(m[6] == 0 && m[7] == 0 && m[8] == 0x10000);
    if (!projective)
    {
	/* the product rounded to the nearest 1/65536 */
	px = (r0 + 0x8000) >> 16;
	py = (r1 + 0x8000) >> 16;
	if (px > INT32_MAX || px < INT32_MIN || py > INT32_MAX || py < INT32_MIN) { out.judged = 0; return out; }
    }
    else
    {
	/* exact rational position; the statement allows one unit of error in the
	 * quotient and the intermediate roundings add about (1 + |pos|)/w more: judge
	 * only pixels whose position is farther than that from a pixel boundary */
	__int128 nx, ny;
	int64_t qx, qy, bound;
	double wr = (double)r2 / 4294967296.0;
	if (r2 <= 0 || filter != PIXMAN_FILTER_NEAREST) { out.judged = 0; return out; }
	nx = ((__int128)r0 << 16); ny = ((__int128)r1 << 16);
	qx = (int64_t)(nx / r2); if (nx % r2 < 0) qx--;
	qy = (int64_t)(ny / r2); if (ny % r2 < 0) qy--;
	if (qx > INT32_MAX / 2 || qx < INT32_MIN / 2 || qy > INT32_MAX / 2 || qy < INT32_MIN / 2) { out.judged = 0; return out; }
	bound = 3 + (int64_t)((2.0 + (double)(qx < 0 ? -qx : qx) / 65536.0 + (double)(qy < 0 ? -qy : qy) / 65536.0) / wr);
	if (((qx - 1) & 0xffff) < bound || ((qx - 1) & 0xffff) > 0xffff - bound ||
	    ((qy - 1) & 0xffff) < bound || ((qy - 1) & 0xffff) > 0xffff - bound) { out.judged = 0; return out; }
	px = qx; py = qy;
    }

    if (s->fmt == PIXMAN_a2r10g10b10)
    {
	/* wide sources: the blend is done in floating point with the whole 16-bit fraction as weight
	 * (bits_image_fetch_pixel_bilinear_float), then stored through float -> 8 bits; judged to +-1 */
	double c[4] = { 0, 0, 0, 0 };
	int k;
	if (filter == PIXMAN_FILTER_NEAREST || filter == PIXMAN_FILTER_FAST)
	    ref_pixel_wide (s, (int)((px - 1) >> 16), (int)((py - 1) >> 16), c);
	else if (filter == PIXMAN_FILTER_BILINEAR || filter == PIXMAN_FILTER_GOOD || filter == PIXMAN_FILTER_BEST)
	{
	    int64_t x1 = px - 0x8000, y1 = py - 0x8000;
	    int ix = (int)(x1 >> 16), iy = (int)(y1 >> 16);
	    double dx = (double)(x1 & 0xffff) / 65536.0, dy = (double)(y1 & 0xffff) / 65536.0;
	    double tl[4], tr[4], bl[4], br[4];
	    ref_pixel_wide (s, ix, iy, tl); ref_pixel_wide (s, ix + 1, iy, tr); ref_pixel_wide (s, ix, iy + 1, bl); ref_pixel_wide (s, ix + 1, iy + 1, br);
	    for (k = 0; k < 4; k++) c[k] = tl[k] * (1 - dx) * (1 - dy) + tr[k] * dx * (1 - dy) + bl[k] * (1 - dx) * dy + br[k] * dx * dy;
	}
	else { out.judged = 0; return out; }
	out.value = (wide_to_8 (c[0]) << 24) | (wide_to_8 (c[1]) << 16) | (wide_to_8 (c[2]) << 8) | wide_to_8 (c[3]);
	out.tol = 1;
	return out;
    }
    switch (filter)
    {
    case PIXMAN_FILTER_NEAREST: case PIXMAN_FILTER_FAST:
	out.value = ref_pixel (s, (int)((px - 1) >> 16), (int)((py - 1) >> 16));
	return out;
    case PIXMAN_FILTER_BILINEAR: case PIXMAN_FILTER_GOOD: case PIXMAN_FILTER_BEST:
    {
	int64_t x1 = px - 0x8000, y1 = py - 0x8000;
	int ix = (int)(x1 >> 16), iy = (int)(y1 >> 16);
	uint32_t dx = (uint32_t)(x1 >> 9) & 0x7f, dy = (uint32_t)(y1 >> 9) & 0x7f;
	uint32_t tl = ref_pixel (s, ix, iy), tr = ref_pixel (s, ix + 1, iy), bl = ref_pixel (s, ix, iy + 1), br = ref_pixel (s, ix + 1, iy + 1);
	uint32_t v = 0;
	int sh;
	for (sh = 0; sh < 32; sh += 8)
	{
	    uint32_t a = (tl >> sh) & 0xff, b = (tr >> sh) & 0xff, c = (bl >> sh) & 0xff, d = (br >> sh) & 0xff;
	    uint32_t sum = a * (128 - dx) * (128 - dy) + b * dx * (128 - dy) + c * (128 - dx) * dy + d * dx * dy;
	    v |= ((sum >> 14) & 0xff) << sh;
	}
	out.value = v;
	return out;
    }
    case PIXMAN_FILTER_CONVOLUTION:
    case PIXMAN_FILTER_SEPARABLE_CONVOLUTION:
    {
	int cw = s->cw, ch = s->ch, i, j, sh;
	double acc[4] = { 0, 0, 0, 0 };
	int64_t x = px, y = py;
	int phx = 0, phy = 0, x1, y1;
	if (filter == PIXMAN_FILTER_SEPARABLE_CONVOLUTION)
	{
	    int xs = 16 - s->xb, ys = 16 - s->yb;
	    /* round to the centre of the closest phase */
	    x = ((x >> xs) << xs) + ((1 << xs) >> 1);
	    y = ((y >> ys) << ys) + ((1 << ys) >> 1);
	    phx = (int)((x & 0xffff) >> xs);
	    phy = (int)((y & 0xffff) >> ys);
	}
	/* first tap: floor (x - (w - 1)/2 - 1/65536) */
	x1 = (int)((x - 1 - (((int64_t)cw << 16) - 0x10000) / 2) >> 16);
	y1 = (int)((y - 1 - (((int64_t)ch << 16) - 0x10000) / 2) >> 16);
	for (i = 0; i < ch; i++)
	    for (j = 0; j < cw; j++)
	    {
		double f;
		uint32_t p;
		if (filter == PIXMAN_FILTER_CONVOLUTION) f = s->params[2 + i * cw + j] / 65536.0;
		else f = (s->params[4 + phx * cw + j] / 65536.0) * (s->params[4 + (1 << s->xb) * cw + phy * ch + i] / 65536.0);
		if (f == 0) continue;
		p = ref_pixel (s, x1 + j, y1 + i);
		for (sh = 0; sh < 4; sh++) acc[sh] += f * ((p >> (8 * sh)) & 0xff);
	    }
	for (sh = 0; sh < 4; sh++)
	{
	    double a = acc[sh] + 0.5;
	    uint32_t q = a < 0 ? 0 : a > 255 ? 255 : (uint32_t)a;
	    out.value |= q << (8 * sh);
	}
	out.tol = 1;
	return out;
    }
    }
    out.judged = 0;
    return out;
}

/* ------------------------------------------------------------ execution */

typedef struct
{
    const scenario_t *sc;
    int chain;
    uint32_t *dst;             /* DW*DH, per request appended */
    int n_req;
} run_t;

static void
apply_state (pixman_image_t *img, const scene_t *s)
{
    if (s->has_transform)
    {
	pixman_transform_t t;
	int i;
	for (i = 0; i < 9; i++) t.matrix[i / 3][i % 3] = (pixman_fixed_t)s->m[i];
	pixman_image_set_transform (img, &t);
    }
    if (s->filter == PIXMAN_FILTER_CONVOLUTION || s->filter == PIXMAN_FILTER_SEPARABLE_CONVOLUTION)
	pixman_image_set_filter (img, s->filter, s->params, s->n_params);
    else
	pixman_image_set_filter (img, s->filter, NULL, 0);
    pixman_image_set_repeat (img, s->repeat);
}

static pixman_image_t *
build_source (const scenario_t *sc, scene_t *s)
{
    pixman_image_t *img = pixman_image_create_bits (s->fmt, s->w, s->h, (uint32_t *)s->bits, s->stride);
    scene_t h;
    if (!img) return NULL;
    /* replay the setter history on the image */
    h = *s;
    h.has_transform = 0; h.filter = PIXMAN_FILTER_NEAREST; h.repeat = 0; h.n_params = 0; h.cw = h.ch = 1;
    decode_scene_upto (sc, &h, sc->n_ops, img);
    return img;
}

#define A(i) ((i) < op->n ? op->a[(i)] : 0)

static void apply_state (pixman_image_t *img, const scene_t *s);

/* decode the scenario up to (not including) op `upto`; when img is given, every
 * setter op is also applied to it in order, so that the image has the scenario's
 * HISTORY of setter calls while the reference sampler only knows the final state */
static void
decode_scene_upto (const scenario_t *sc, scene_t *s, int upto, pixman_image_t *img)
{
    int j, i;
    uint8_t *keep = s->bits;
    if (!img) { memset (s, 0, sizeof *s); keep = NULL; }
    s->bits = keep;
    if (!img) { s->fmt = PIXMAN_a8r8g8b8; s->w = s->h = 1; s->filter = PIXMAN_FILTER_NEAREST; s->cw = s->ch = 1; }
    for (j = 0; j < upto; j++)
    {
	const sim_op_t *op = &sc->ops[j];
	if (img && op->kind == S_SRC) continue;
	switch (op->kind)
	{
	case S_SRC:
	{
	    uint64_t x = (uint64_t)A (3) * 0x9e3779b97f4a7c15ull + 3;
	    int bpp;
	    size_t n, k;
	    s->fmt = sfmts[sim_mod (A (0), 5)];
	    s->w = (int)sim_clamp (A (1), 1, 32767); s->h = (int)sim_clamp (A (2), 1, 64);
	    if (s->w > 64 && s->h > 2) s->h = 2;            /* very wide sources are one or two rows high */
	    bpp = PIXMAN_FORMAT_BPP (s->fmt);
	    s->stride = ((s->w * bpp + 31) / 32) * 4;
	    n = (size_t)s->stride * s->h;
	    free (s->bits);
	    s->bits = malloc (n + 8);
	    for (k = 0; k < n; k++) s->bits[k] = (uint8_t)(sim_splitmix (&x) >> 13);
	    break;
	}
	case S_TRANSFORM:
	    s->has_transform = 1;
	    for (i = 0; i < 9; i++) s->m[i] = sim_clamp (A (i), INT32_MIN, INT32_MAX);
	    break;
	case S_FILTER:
	{
	    int cnt, np = 0;
	    s->filter = (int)sim_mod (A (0), 7);
	    s->cw = (int)sim_clamp (A (1), 1, MAXK); s->ch = (int)sim_clamp (A (2), 1, MAXK);
	    s->xb = (int)sim_clamp (A (3), 0, 2); s->yb = (int)sim_clamp (A (4), 0, 2);
	    if (s->filter == PIXMAN_FILTER_CONVOLUTION)
	    {
		s->params[np++] = pixman_int_to_fixed (s->cw); s->params[np++] = pixman_int_to_fixed (s->ch);
		cnt = s->cw * s->ch;
		/* non-negative, sum <= 1: neither clipping nor accumulator sign handling can enter */
		for (i = 0; i < cnt; i++) s->params[np++] = (pixman_fixed_t)sim_clamp (A (5 + i), 0, 65536 / cnt);
	    }
	    else if (s->filter == PIXMAN_FILTER_SEPARABLE_CONVOLUTION)
	    {
		int nx = (1 << s->xb) * s->cw, ny = (1 << s->yb) * s->ch;
		s->params[np++] = pixman_int_to_fixed (s->cw); s->params[np++] = pixman_int_to_fixed (s->ch);
		s->params[np++] = pixman_int_to_fixed (s->xb); s->params[np++] = pixman_int_to_fixed (s->yb);
		for (i = 0; i < nx; i++) s->params[np++] = (pixman_fixed_t)sim_clamp (A (5 + i), 0, 65536 / s->cw);
		for (i = 0; i < ny; i++) s->params[np++] = (pixman_fixed_t)sim_clamp (A (5 + nx + i), 0, 65536 / s->ch);
	    }
	    s->n_params = np;
	    break;
	}
	case S_REPEAT:
	    s->repeat = (int)sim_mod (A (0), 4);
	    break;
	}
	if (img && (op->kind == S_TRANSFORM || op->kind == S_FILTER || op->kind == S_REPEAT)) apply_state (img, s);
    }
    if (!s->bits) { s->bits = calloc (16, 1); s->stride = 4; }
}

static void
decode_scene (const scenario_t *sc, scene_t *s)
{
    decode_scene_upto (sc, s, sc->n_ops, NULL);
}

static void
chain_thread (void *p)
{
    run_t *r = p;
    const scenario_t *sc = r->sc;
    scene_t s;
    pixman_image_t *src, *dst;
    uint32_t *dbits = malloc (DW * DH * 4);
    int j, k = 0;
    chain_install (r->chain);
    decode_scene (sc, &s);
    src = build_source (sc, &s);
    dst = pixman_image_create_bits (PIXMAN_a8r8g8b8, DW, DH, dbits, DW * 4);
    for (j = 0; j < sc->n_ops && src && dst; j++)
    {
	const sim_op_t *op = &sc->ops[j];
	int i;
	if (op->kind != S_REQUEST) continue;
	for (i = 0; i < DW * DH; i++) dbits[i] = 0x12345678u ^ (uint32_t)i;
	pixman_image_composite32 (PIXMAN_OP_SRC, src, NULL, dst, (int32_t)sim_clamp (A (0), -200, 200), (int32_t)sim_clamp (A (1), -200, 200), 0, 0,
				  (int32_t)sim_clamp (A (2), 0, DW), (int32_t)sim_clamp (A (3), 0, DH), (int32_t)sim_clamp (A (4), 0, DW), (int32_t)sim_clamp (A (5), 0, DH));
	memcpy (r->dst + (size_t)k * DW * DH, dbits, DW * DH * 4);
	k++;
    }
    r->n_req = k;
    if (src) pixman_image_unref (src);
    if (dst) pixman_image_unref (dst);
    free (dbits);
    free (s.bits);
}

static const char *filter_names[7] = { "fast", "good", "best", "nearest", "bilinear", "convolution", "separable-convolution" };
static const char *repeat_names[4] = { "none", "normal", "pad", "reflect" };

static void
execute (const scenario_t *sc, const char *property, result_t *res)
{
    scene_t s;
    int n_req = 0, j, c, k;
    uint32_t *ref, *refmask;      /* expected value, and 0 = skip / 1 = exact / 2 = +-1 */
    uint64_t h = FNV_INIT;
    long judged = 0, skipped = 0, outside = 0;
    uint32_t chain_mask = (uint32_t)sc_get (sc, "chains", -1);
    int projective;

    decode_scene (sc, &s);
    projective = s.has_transform && !(s.m[6] == 0 && s.m[7] == 0 && s.m[8] == 0x10000);
    for (j = 0; j < sc->n_ops; j++) if (sc->ops[j].kind == S_REQUEST) n_req++;
    if (!n_req) { free (s.bits); res->hash = h; return; }
    ref = calloc ((size_t)n_req * DW * DH, 4);
    refmask = calloc ((size_t)n_req * DW * DH, 4);

    /* the reference picture of every request */
    for (j = 0, k = 0; j < sc->n_ops; j++)
    {
	const sim_op_t *op = &sc->ops[j];
	int sx, sy, dx, dy, w, hh, x, y;
	if (op->kind != S_REQUEST) continue;
	sx = (int)sim_clamp (A (0), -200, 200); sy = (int)sim_clamp (A (1), -200, 200);
	dx = (int)sim_clamp (A (2), 0, DW); dy = (int)sim_clamp (A (3), 0, DH);
	w = (int)sim_clamp (A (4), 0, DW); hh = (int)sim_clamp (A (5), 0, DH);
	for (y = 0; y < DH; y++)
	    for (x = 0; x < DW; x++)
	    {
		size_t idx = (size_t)k * DW * DH + (size_t)y * DW + x;
		if (x >= dx && x < dx + w && y >= dy && y < dy + hh)
		{
		    ref_t rr = ref_sample (&s, sx + (x - dx), sy + (y - dy));
		    if (rr.judged) { ref[idx] = rr.value; refmask[idx] = 1 + rr.tol; judged++; }
		    else skipped++;
		}
		else { ref[idx] = 0x12345678u ^ (uint32_t)(y * DW + x); refmask[idx] = 1; outside++; }
	    }
	k++;
    }

    for (c = 0; c < N_CHAINS && !res->violated; c++)
    {
	run_t r;
	size_t i;
	if (!(chain_mask & (1u << c))) continue;
	r.sc = sc; r.chain = c; r.dst = calloc ((size_t)n_req * DW * DH, 4); r.n_req = 0;
	run_on_fresh_thread (chain_thread, &r);
	h = fnv_bytes (h, r.dst, (size_t)n_req * DW * DH * 4);
	for (i = 0; i < (size_t)n_req * DW * DH && !res->violated; i++)
	{
	    uint32_t got = r.dst[i], want = ref[i];
	    int bad = 0, sh;
	    if (!refmask[i]) continue;
	    if (refmask[i] == 1) bad = got != want;
	    else for (sh = 0; sh < 32; sh += 8) { int d = (int)((got >> sh) & 0xff) - (int)((want >> sh) & 0xff); if (d > 1 || d < -1) bad = 1; }
	    if (bad)
	    {
		char cls[96], site[128];
		int pix = (int)(i % (DW * DH));
		snprintf (cls, sizeof cls, "C08/%s-sample-differs-from-reference", filter_names[s.filter]);
		snprintf (site, sizeof site, "%s:%s:repeat-%s:%s%s", filter_names[s.filter], projective ? "projective" : s.has_transform ? "affine" : "identity",
			  repeat_names[s.repeat], sim_format_name (s.fmt), s.w == 1 && s.h == 1 && s.repeat != PIXMAN_REPEAT_NONE ? ":1x1-repeating-source" : "");
		res->op_index = (int)(i / (DW * DH));
		sim_violation (res, "C08", cls, site,
			       "chain '%s': request %d, destination pixel (%d,%d) is %08x, the reference sampler gives %08x%s (source %dx%d)",
			       chain_name (c), (int)(i / (DW * DH)), pix % DW, pix / DW, got, want, refmask[i] == 2 ? " +-1" : "", s.w, s.h);
	    }
	}
	free (r.dst);
    }
    free (ref); free (refmask); free (s.bits);
    sim_count ("pixels_judged", judged);
    sim_count ("pixels_skipped_near_boundary_or_out_of_scope", skipped);
    sim_count (filter_names[s.filter], 1);
    sim_count (projective ? "projective" : s.has_transform ? "affine" : "identity", 1);
    sim_count (repeat_names[s.repeat], 1);
    sim_count ("ops_executed", sc->n_ops);
    res->hash = h;
    res->key = h;
    res->nontrivial = judged >= 16;
}

/* ---------------------------------------------------------------- generator */

static void
generate (uint64_t seed, int tier, const char *property, scenario_t *sc)
{
    rng_t r;
    int64_t m[9] = { 65536, 0, 0, 0, 65536, 0, 0, 0, 65536 };
    int w, h, i, n_req, tclass, filter, fit_w = 0, fit_h = 0, force_nearest = 0;
    rng_seed (&r, seed, 8);
    sc_set (sc, "chains", 0xffffffffll);
    if (rng_chance (&r, 1, 12))
    {
	/* a very wide source, strongly minified, the first samples far to the left of it: the
	 * distances the scanline set-up works with approach the end of the 16.16 range while
	 * every sample position stays inside it */
	int64_t unit, start;
	w = (int)rng_range (&r, 6000, 32000); h = (int)rng_range (&r, 1, 2);
	start = -rng_range (&r, 0, 32000 - w < 14000 ? 32000 - w + 600 : 14000);
	/* pixman wants the request grown by one destination pixel on each side to map into the
	 * 16.16 range too (analyze_extent in pixman.c), or it drops the request: stay inside that */
	unit = rng_range (&r, 100, (32700 - start) / (DW + 2));
	m[0] = unit * 65536 + (rng_chance (&r, 1, 2) ? 0 : rng_range (&r, 0, 65535));
	m[2] = start * 65536 + (rng_chance (&r, 1, 2) ? 32768 : rng_range (&r, 0, 65535));
	m[4] = rng_chance (&r, 1, 2) ? 65536 : rng_range (&r, 30000, 2 * 65536);
	m[5] = rng_range (&r, -2, 2) * 32768;
	if (((DW + 2) * m[0] + m[2]) / 65536 > 32760) m[0] = (32760ll * 65536 - m[2]) / (DW + 2);
	sc_add (sc, S_SRC, 4, (int64_t)rng_n (&r, 4), (int64_t)w, (int64_t)h, (int64_t)(rng_u64 (&r) >> 20));
	sc_add (sc, S_TRANSFORM, 9, m[0], m[1], m[2], m[3], m[4], m[5], m[6], m[7], m[8]);
	sc_add (sc, S_FILTER, 5, (int64_t)(rng_chance (&r, 1, 2) ? PIXMAN_FILTER_NEAREST : PIXMAN_FILTER_BILINEAR), (int64_t)1, (int64_t)1, (int64_t)0, (int64_t)0);
	sc_add (sc, S_REPEAT, 1, (int64_t)rng_n (&r, 4));
	n_req = (int)rng_range (&r, 1, 3);
	for (i = 0; i < n_req; i++)
	    sc_add (sc, S_REQUEST, 6, (int64_t)0, (int64_t)rng_range (&r, 0, 1), (int64_t)0, (int64_t)rng_range (&r, 0, 3),
		    (int64_t)(rng_chance (&r, 2, 3) ? DW : rng_range (&r, 1, DW)), (int64_t)rng_range (&r, 1, 3));
	return;
    }
    w = rng_chance (&r, 1, 5) ? 1 : (int)rng_range (&r, 1, 64);
    h = rng_chance (&r, 1, 5) ? 1 : (int)rng_range (&r, 1, 64);
    sc_add (sc, S_SRC, 4, (int64_t)(rng_chance (&r, 1, 7) ? 4 : rng_n (&r, 4)), (int64_t)w, (int64_t)h, (int64_t)(rng_u64 (&r) >> 20));
    tclass = (int)rng_n (&r, 10);
    switch (tclass)
    {
    case 0: break;                                                      /* no transform */
    case 1: m[2] = rng_range (&r, -80, 80) * 65536; m[5] = rng_range (&r, -80, 80) * 65536; break;
    case 2: m[2] = rng_range (&r, -80 * 65536, 80 * 65536); m[5] = rng_range (&r, -80 * 65536, 80 * 65536); break;
    case 3: case 4:
	m[0] = rng_chance (&r, 1, 3) ? 65536 : rng_range (&r, 4096, 6 * 65536);
	m[4] = rng_chance (&r, 1, 3) ? 65536 : rng_range (&r, 4096, 6 * 65536);
	if (rng_chance (&r, 1, 4)) m[0] = -m[0];
	if (rng_chance (&r, 1, 4)) m[4] = -m[4];
	m[2] = rng_range (&r, -40 * 65536, 80 * 65536); m[5] = rng_range (&r, -40 * 65536, 80 * 65536);
	/* positions exactly on pixel boundaries and centres now and then */
	if (rng_chance (&r, 1, 3)) { m[2] &= ~0x7fffll; m[5] &= ~0x7fffll; }
	break;
    case 5:
    {
	static const int cs[4] = { 1, 0, -1, 0 }, sn[4] = { 0, 1, 0, -1 };
	int q = (int)rng_n (&r, 4);
	m[0] = cs[q] * 65536; m[1] = -sn[q] * 65536; m[3] = sn[q] * 65536; m[4] = cs[q] * 65536;
	m[2] = rng_range (&r, -10, 70) * 65536; m[5] = rng_range (&r, -10, 70) * 65536;
	if (q && rng_chance (&r, 1, 2))
	{
	    /* a request that lies inside the source with the translation at either end of what
	     * allows that (the rotation fast paths want all samples inside): sample k of n along an
	     * axis is at +-(k + 1/2) + t and NEAREST takes floor (. - 1/65536) */
	    int x_minus = q != 3, y_minus = q != 1, k;           /* q: 1 = 90, 2 = 180, 3 = 270 degrees */
	    int nx, ny;
	    int64_t lo[2], hi[2];
	    fit_w = (int)rng_range (&r, 1, q == 2 ? (w < DW ? w : DW) : (h < DW ? h : DW));
	    fit_h = (int)rng_range (&r, 1, q == 2 ? (h < DH ? h : DH) : (w < DH ? w : DH));
	    nx = q == 2 ? fit_w : fit_h; ny = q == 2 ? fit_h : fit_w;
	    lo[0] = x_minus ? (int64_t)nx * 65536 - 32768 + 1 : -32768 + 1; hi[0] = x_minus ? (int64_t)w * 65536 + 32768 : (int64_t)(w - nx) * 65536 + 32768;
	    lo[1] = y_minus ? (int64_t)ny * 65536 - 32768 + 1 : -32768 + 1; hi[1] = y_minus ? (int64_t)h * 65536 + 32768 : (int64_t)(h - ny) * 65536 + 32768;
	    for (k = 0; k < 2; k++)
	    {
		int64_t t = rng_chance (&r, 1, 4) ? lo[k] : rng_chance (&r, 1, 2) ? hi[k] : rng_range (&r, lo[k], hi[k]);
		m[k ? 5 : 2] = t;
	    }
	    force_nearest = rng_chance (&r, 3, 4);
	}
	else
	{
	    /* a quarter turn puts sample positions exactly on pixel boundaries when the translation
	     * has a fraction of one half: the place where floor (x - 1/65536) and a plain rounding part ways */
	    static const int64_t fr[] = { 0, 0, 32768, 32768, 1, -1, 32767, 32769, 16384 };
	    m[2] += fr[rng_n (&r, 9)]; m[5] += fr[rng_n (&r, 9)];
	}
	break;
    }
    case 6: case 7:
	m[0] = rng_range (&r, -3 * 65536, 3 * 65536); m[1] = rng_range (&r, -3 * 65536, 3 * 65536);
	m[3] = rng_range (&r, -3 * 65536, 3 * 65536); m[4] = rng_range (&r, -3 * 65536, 3 * 65536);
	m[2] = rng_range (&r, -40 * 65536, 80 * 65536); m[5] = rng_range (&r, -40 * 65536, 80 * 65536);
	break;
    default:
	/* projective, w kept within [1/2, 4] over the whole destination */
	m[0] = rng_range (&r, -2 * 65536, 2 * 65536); m[1] = rng_range (&r, -65536, 65536);
	m[3] = rng_range (&r, -65536, 65536); m[4] = rng_range (&r, -2 * 65536, 2 * 65536);
	m[2] = rng_range (&r, -60 * 65536, 60 * 65536); m[5] = rng_range (&r, -60 * 65536, 60 * 65536);
	m[6] = rng_range (&r, -300, 300); m[7] = rng_range (&r, -300, 300);
	m[8] = rng_chance (&r, 1, 3) ? 65536 : rng_chance (&r, 1, 2) ? 3 * 65536 : rng_range (&r, 50000, 3 * 65536);
	/* the upper rows a plain scale + translation now and then */
	if (rng_chance (&r, 1, 3)) { m[1] = m[3] = 0; if (!m[0]) m[0] = 65536; if (!m[4]) m[4] = 65536; m[0] = m[0] < 0 ? -m[0] : m[0]; m[4] = m[4] < 0 ? -m[4] : m[4]; }
	/* sparse bottom rows: (0,0,w), (0,p,1), (p,0,1) are projective too */
	switch (rng_n (&r, 6))
	{
	case 0: m[6] = m[7] = 0; if (m[8] == 65536) m[8] = rng_chance (&r, 1, 2) ? 2 * 65536 : 32768 + rng_range (&r, 0, 65536); break;
	case 1: m[6] = 0; m[8] = 65536; if (!m[7]) m[7] = 77; break;
	case 2: m[7] = 0; m[8] = 65536; if (!m[6]) m[6] = -91; break;
	default: break;
	}
	break;
    }
    if (tclass) sc_add (sc, S_TRANSFORM, 9, m[0], m[1], m[2], m[3], m[4], m[5], m[6], m[7], m[8]);
    {
	int64_t a[SIM_MAX_ARGS];
	int n = 0, cw = (int)rng_range (&r, 1, MAXK), ch = (int)rng_range (&r, 1, MAXK), xb = (int)rng_n (&r, 3), yb = (int)rng_n (&r, 3), cnt;
	static const int plain[] = { PIXMAN_FILTER_NEAREST, PIXMAN_FILTER_BILINEAR, PIXMAN_FILTER_NEAREST, PIXMAN_FILTER_BILINEAR, PIXMAN_FILTER_FAST, PIXMAN_FILTER_GOOD, PIXMAN_FILTER_BEST };
	if (tclass >= 8 || force_nearest) filter = PIXMAN_FILTER_NEAREST;
	else if (rng_chance (&r, 1, 4)) filter = rng_chance (&r, 1, 2) ? PIXMAN_FILTER_CONVOLUTION : PIXMAN_FILTER_SEPARABLE_CONVOLUTION;
	else filter = plain[rng_n (&r, 7)];
	a[n++] = filter; a[n++] = cw; a[n++] = ch; a[n++] = xb; a[n++] = yb;
	cnt = filter == PIXMAN_FILTER_CONVOLUTION ? cw * ch : filter == PIXMAN_FILTER_SEPARABLE_CONVOLUTION ? (1 << xb) * cw + (1 << yb) * ch : 0;
	for (i = 0; i < cnt; i++) a[n++] = rng_chance (&r, 1, 5) ? 0 : rng_range (&r, 0, 65536);
	if (cnt && rng_chance (&r, 1, 2))
	{
	    /* a history: the same kind and size of filter was set before, with the same
	     * leading coefficients and different later ones */
	    int64_t b[SIM_MAX_ARGS];
	    int keep = (int)rng_range (&r, 1, cnt > 3 ? 3 : cnt);
	    memcpy (b, a, sizeof (int64_t) * n);
	    for (i = keep; i < cnt; i++) b[5 + i] = rng_range (&r, 0, 65536);
	    sc_addv (sc, S_FILTER, n, b);
	}
	else if (rng_chance (&r, 1, 4))
	{
	    int64_t b[5] = { rng_n (&r, 5), 1, 1, 0, 0 };
	    sc_addv (sc, S_FILTER, 5, b);
	}
	sc_addv (sc, S_FILTER, n, a);
    }
    sc_add (sc, S_REPEAT, 1, (int64_t)(fit_w && rng_chance (&r, 2, 3) ? 0 : rng_n (&r, 4)));
    n_req = (int)rng_range (&r, 1, 3);
    for (i = 0; i < n_req; i++)
    {
	int dx = rng_chance (&r, 1, 2) ? 0 : (int)rng_range (&r, 0, 10), dy = rng_chance (&r, 1, 2) ? 0 : (int)rng_range (&r, 0, 4);
	if (fit_w && i == 0)
	{
	    sc_add (sc, S_REQUEST, 6, (int64_t)0, (int64_t)0, (int64_t)rng_range (&r, 0, DW - fit_w), (int64_t)rng_range (&r, 0, DH - fit_h), (int64_t)fit_w, (int64_t)fit_h);
	    continue;
	}
	sc_add (sc, S_REQUEST, 6, (int64_t)rng_range (&r, -20, 40), (int64_t)rng_range (&r, -20, 40), (int64_t)dx, (int64_t)dy,
		(int64_t)rng_range (&r, 1, DW - dx), (int64_t)rng_range (&r, 1, DH - dy));
    }
}

static const world_t world = { "sample", op_names, S_N, generate, execute, chains_init };

int
main (int argc, char **argv)
{
    return sim_main (argc, argv, &world);
}
