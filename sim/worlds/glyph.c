/* World `glyph` — decides C17: the glyph cache is a faithful map under any
 * history; glyph drawing is per-glyph.
 *
 * Real code: pixman-glyph.c (+ compositing).  Built three times: with the
 * real table (32768 slots) and, through hook H4, with 16/8/4 and 64/32/16
 * slots / high water / low water, where table-filling runs, collision
 * chains and tombstone build-up happen within tens of ops.
 *
 * Model: map key -> (saved copy of the image, origin, pointer returned by
 * insert), LRU order, freeze depth, and T, an upper bound on the number of
 * tombstones.  "Always terminates" is a bounded-step check: hook H4 reports
 * every probe step and no call may take more than HASH_SIZE of them.
 */
#include "machine.h"
#include "gen.h"
#include <setjmp.h>

#ifndef SIM_GLYPH_HIGH
#define SIM_GLYPH_HIGH 16384
#define SIM_GLYPH_LOW 8192
#endif
#define HASH_SIZE (2 * SIM_GLYPH_HIGH)

enum { G_IMG, G_FREEZE, G_THAW, G_INSERT, G_LOOKUP, G_REMOVE, G_SCRIBBLE, G_DRAW, G_FILL, G_N };
static const char *op_names[G_N] = { "img", "freeze", "thaw", "insert", "lookup", "remove", "scribble", "draw", "fill" };

#define NIMG 6
#define DW 48
#define DH 32
#define MAXE 40000
#define EXH_LEN 6

typedef struct
{
    int font, glyph;               /* key */
    int ox, oy;
    const void *ptr;               /* what insert returned */
    pixman_image_t *copy;          /* the model's own immutable copy */
    uint32_t *copy_bits;
    uint64_t stamp;                /* LRU: larger = more recently used */
} entry_t;

static entry_t *E;
static int nE;
static uint64_t stamp;
static int depth;
static long T;                     /* upper bound on tombstones */
/* keys removed (or evicted) since the table was last known to be clean and
 * not inserted again.  Re-inserting such a key consumes a tombstone: its
 * probe path leads through its old slot, which is either still a tombstone
 * (first fit takes that one or an earlier one) or has been reclaimed since,
 * in which case T was one too high anyway.  So T may go down by one. */
static struct { int font, glyph; } *RK;
static int nRK;

static void
rk_add (int font, int glyph)
{
    if (nRK < MAXE) { RK[nRK].font = font; RK[nRK].glyph = glyph; nRK++; }
}

static int
rk_take (int font, int glyph)
{
    int i;
    for (i = 0; i < nRK; i++)
	if (RK[i].font == font && RK[i].glyph == glyph) { RK[i] = RK[--nRK]; return 1; }
    return 0;
}

static struct { pixman_image_t *img; uint32_t *bits; pixman_format_code_t fmt; int w, h, stride; } gi[NIMG];

static sigjmp_buf probe_jmp;
static long probe_steps;
static int probe_armed;

static void
probe_handler (int site, const void *obj, int rw, const void *aux)
{
    if (site != PIXMAN_VERIF_SITE_GLYPH_PROBE || !probe_armed) return;
    if (++probe_steps > HASH_SIZE + 1)
	siglongjmp (probe_jmp, 1);
}

static int
find (int font, int glyph)
{
    int i;
    for (i = 0; i < nE; i++) if (E[i].font == font && E[i].glyph == glyph) return i;
    return -1;
}

static void
drop (int i)
{
    pixman_image_unref (E[i].copy);
    free (E[i].copy_bits);
    E[i] = E[--nE];
}

static void *FK (int f) { return (void *)(uintptr_t)f; }

static const pixman_format_code_t gfmts[] = { PIXMAN_a8, PIXMAN_a1, PIXMAN_a4, PIXMAN_a8r8g8b8, PIXMAN_x8r8g8b8, PIXMAN_a8b8g8r8,
					      PIXMAN_b8g8r8a8, PIXMAN_r5g6b5, PIXMAN_a4r4g4b4, PIXMAN_a8r8g8b8_sRGB, PIXMAN_a2r10g10b10,
					      PIXMAN_r8g8b8a8, PIXMAN_a1r5g5b5 };
/* the first four are the usual ones; the rest are legal too and decide differently about component alpha */
static const pixman_format_code_t mfmts[] = { PIXMAN_a8, PIXMAN_a1, PIXMAN_a4, PIXMAN_a8r8g8b8,
					      PIXMAN_a8b8g8r8, PIXMAN_b8g8r8a8, PIXMAN_r8g8b8a8, PIXMAN_x8r8g8b8, PIXMAN_a4r4g4b4, PIXMAN_a1b5g5r5 };
#define N_MFMTS ((int)(sizeof mfmts / sizeof mfmts[0]))

static void
fill_words (uint32_t *p, int n, uint64_t seed)
{
    uint64_t x = seed * 0x9e3779b97f4a7c15ull + 7;
    int i;
    for (i = 0; i < n; i++) p[i] = (uint32_t)sim_splitmix (&x);
}

#define A(i) ((i) < op->n ? op->a[(i)] : 0)

/* the per-glyph reference of one run on destination `dest` */
static void
reference_draw (pixman_op_t pop, pixman_image_t *src, pixman_image_t *dest, int use_mask, pixman_format_code_t mf,
		int n, const int *ex, const int *gx, const int *gy)
{
    int i;
    if (!use_mask)
    {
	for (i = 0; i < n; i++)
	{
	    entry_t *e = &E[ex[i]];
	    int w = pixman_image_get_width (e->copy), h = pixman_image_get_height (e->copy);
	    int x = gx[i] - e->ox, y = gy[i] - e->oy;
	    pixman_image_composite32 (pop, src, e->copy, dest, x, y, 0, 0, x, y, w, h);
	}
    }
    else
    {
	pixman_image_t *mask = pixman_image_create_bits (mf, DW, DH, NULL, -1);
	pixman_color_t white = { 0xffff, 0xffff, 0xffff, 0xffff };
	pixman_image_t *wi = pixman_image_create_solid_fill (&white);
	if (PIXMAN_FORMAT_A (mf) && PIXMAN_FORMAT_RGB (mf)) pixman_image_set_component_alpha (mask, TRUE);
	for (i = 0; i < n; i++)
	{
	    entry_t *e = &E[ex[i]];
	    int w = pixman_image_get_width (e->copy), h = pixman_image_get_height (e->copy);
	    int x = gx[i] - e->ox, y = gy[i] - e->oy;
	    if (pixman_image_get_format (e->copy) == mf)
		pixman_image_composite32 (PIXMAN_OP_ADD, e->copy, NULL, mask, 0, 0, 0, 0, x, y, w, h);
	    else
		pixman_image_composite32 (PIXMAN_OP_ADD, wi, e->copy, mask, 0, 0, 0, 0, x, y, w, h);
	}
	pixman_image_composite32 (pop, src, mask, dest, 0, 0, 0, 0, 0, 0, DW, DH);
	pixman_image_unref (wi);
	pixman_image_unref (mask);
    }
}

static void
execute (const scenario_t *sc, const char *property, result_t *res)
{
    pixman_glyph_cache_t *cache;
    uint64_t h = FNV_INIT;
    int j, i;
    uint32_t *dbits[2];
    pixman_image_t *dimg[2], *src;
    pixman_color_t sc_col = { 0x4000, 0xc000, 0x8000, 0xe000 };
    long lookups = 0, evictions = 0, refusals = 0, draws = 0, max_entries = 0, faults = 0, thaw_empty = 0;
    int chain = (int)sc_get (sc, "chain", 0);

    /* a history generated for another table size says nothing here */
    if (sc_get (sc, "table_slots", HASH_SIZE) != HASH_SIZE) { sim_count ("scenarios_for_other_table_size_skipped", 1); return; }
    if (!E) E = calloc (MAXE, sizeof *E);
    if (!RK) RK = calloc (MAXE, sizeof *RK);
    nE = 0; stamp = 0; depth = 0; T = 0; nRK = 0;
    memset (gi, 0, sizeof gi);
    sim_alloc_reset ();
    sim_alloc.tracking = 1;
    chain_install (chain);
    sim_point_handler = probe_handler;

    sim_alloc_enter (-1, 0, 0, 0);
    cache = pixman_glyph_cache_create ();
    sim_alloc_leave ();
    for (i = 0; i < 2; i++)
    {
	dbits[i] = malloc (DW * DH * 4);
	fill_words (dbits[i], DW * DH, 99);
	dimg[i] = pixman_image_create_bits (PIXMAN_a8r8g8b8, DW, DH, dbits[i], DW * 4);
    }
    src = pixman_image_create_solid_fill (&sc_col);

    for (j = 0; j < sc->n_ops && !res->violated; j++)
    {
	const sim_op_t *op = &sc->ops[j];
	int font = (int)(1 + sim_mod (A (0), 4)), glyph = (int)(1 + sim_mod (A (1), 60000));
	res->op_index = j;
	probe_steps = 0;
	if (sigsetjmp (probe_jmp, 1))
	{
	    probe_armed = 0;
	    sim_alloc_leave ();
	    sim_violation (res, "C17", "C17/probe-steps-exceeded", op_names[op->kind],
			   "%s made more than HASH_SIZE=%d probe steps: it would never return (%d entries, tombstone bound %ld, freeze depth %d)",
			   op_names[op->kind], HASH_SIZE, nE, T, depth);
	    break;
	}
	switch (op->kind)
	{
	case G_IMG:
	{
	    int s = (int)sim_mod (A (0), NIMG), w = (int)sim_clamp (A (2), 1, 8), hh = (int)sim_clamp (A (3), 1, 8);
	    pixman_format_code_t f = gfmts[sim_mod (A (1), sizeof gfmts / sizeof gfmts[0])];
	    int stride = ((w * PIXMAN_FORMAT_BPP (f) + 31) / 32) * 4;
	    if (gi[s].img) break;
	    gi[s].bits = malloc (stride * hh);
	    fill_words (gi[s].bits, stride * hh / 4, (uint64_t)A (4));
	    gi[s].img = pixman_image_create_bits (f, w, hh, gi[s].bits, stride);
	    gi[s].fmt = f; gi[s].w = w; gi[s].h = hh; gi[s].stride = stride;
	    break;
	}
	case G_FREEZE:
	    if (depth >= 3) break;
	    pixman_glyph_cache_freeze (cache);
	    depth++;
	    break;
	case G_THAW:
	{
	    int before = nE, k, survivors = 0, mru_ok = 1;
	    if (depth <= 0) break;
	    sim_alloc_enter (j, 0, 0, 0);
	    probe_armed = 1;
	    pixman_glyph_cache_thaw (cache);
	    probe_armed = 0;
	    sim_alloc_leave ();
	    depth--;
	    if (depth > 0 || !before) break;
	    /* learn the survivor set by looking every model key up */
	    {
		unsigned char *alive = malloc (before);
		uint64_t min_alive = ~(uint64_t)0, max_dead = 0;
		for (k = 0; k < before; k++)
		{
		    const void *p;
		    probe_steps = 0; probe_armed = 1;
		    p = pixman_glyph_cache_lookup (cache, FK (E[k].font), FK (E[k].glyph));
		    probe_armed = 0;
		    alive[k] = p != NULL;
		    if (p && p != E[k].ptr)
		    {
			sim_violation (res, "C17", "C17/lookup-returns-wrong-entry", "thaw", "after thaw the key (%d,%d) maps to a different entry", E[k].font, E[k].glyph);
			break;
		    }
		    if (p) { survivors++; if (E[k].stamp < min_alive) min_alive = E[k].stamp; }
		    else if (E[k].stamp > max_dead) max_dead = E[k].stamp;
		}
		if (!res->violated)
		{
		    if (survivors == before)
		    {
			if (before > SIM_GLYPH_HIGH)
			    sim_violation (res, "C17", "C17/thaw-keeps-cache-above-high-water", "thaw", "thaw left %d entries, above the high-water mark %d", before, SIM_GLYPH_HIGH);
		    }
		    else
		    {
			evictions += before - survivors;
			if (before <= SIM_GLYPH_HIGH && T == 0)
			    sim_violation (res, "C17", "C17/entries-vanish-below-high-water", "thaw",
					   "thaw evicted %d of %d entries although the cache was not above its high-water mark %d and no tombstones can exist",
					   before - survivors, before, SIM_GLYPH_HIGH);
			else if (survivors != 0)
			{
			    /* must be exactly the LOW most recently used */
			    if (survivors != SIM_GLYPH_LOW) mru_ok = 0;
			    if (max_dead > min_alive) mru_ok = 0;
			    if (!mru_ok)
				sim_violation (res, "C17", "C17/eviction-not-least-recently-used", "thaw",
					       "thaw kept %d of %d entries (low-water %d); an evicted entry was used more recently than a kept one: %s",
					       survivors, before, SIM_GLYPH_LOW, max_dead > min_alive ? "yes" : "no");
			}
			else thaw_empty++;
		    }
		}
		if (!res->violated && survivors != before)
		{
		    if (survivors == 0) { T = 0; nRK = 0; }    /* the table was cleared */
		    else
		    {
			T += before - survivors;               /* evictions leave tombstones */
			for (k = 0; k < before; k++) if (!alive[k]) rk_add (E[k].font, E[k].glyph);
		    }
		    for (k = before - 1; k >= 0; k--) if (!alive[k]) drop (k);
		}
		free (alive);
	    }
	    break;
	}
	case G_INSERT:
	case G_FILL:
	{
	    int cnt = op->kind == G_FILL ? (int)sim_clamp (A (2), 1, 2 * HASH_SIZE > 70000 ? 70000 : 2 * HASH_SIZE) : 1, c;
	    int s = (int)sim_mod (A (op->kind == G_FILL ? 3 : 4), NIMG);
	    int fk = op->kind == G_INSERT ? (int)sim_clamp (A (5), 0, 3) : 0, fm = fk ? (int)sim_clamp (A (6), 1, 2) : 0;
	    int thaw_after = 0;
	    if (!gi[s].img) break;
	    if (depth == 0) { pixman_glyph_cache_freeze (cache); depth = 1; thaw_after = op->kind == G_INSERT; }
	    for (c = 0; c < cnt && !res->violated; c++)
	    {
		int g2 = op->kind == G_FILL ? (int)(1 + sim_mod (A (1) + c, 60000)) : glyph;
		int ox = op->kind == G_FILL ? 0 : (int)sim_clamp (A (2), -200000, 200000), oy = op->kind == G_FILL ? 0 : (int)sim_clamp (A (3), -200000, 200000);      /* origins are plain ints */
		const void *p;
		if (find (font, g2) >= 0) continue;            /* the API forbids inserting a present key */
		if (nE >= MAXE) break;
		sim_alloc_enter (j, fm, fk, 0);
		probe_steps = 0; probe_armed = 1;
		p = pixman_glyph_cache_insert (cache, FK (font), FK (g2), ox, oy, gi[s].img);
		probe_armed = 0;
		sim_alloc_leave ();
		faults += sim_alloc.n_failed;
		if (!p)
		{
		    if (!sim_alloc.n_failed)
		    {
			refusals++;
			if (nE + T < HASH_SIZE - 1)
			    sim_violation (res, "C17", "C17/insert-refused-although-room", op_names[op->kind],
					   "insert returned NULL without a failed allocation with %d entries and at most %ld tombstones in %d slots", nE, T, HASH_SIZE);
		    }
		    /* refused or failed: the map is unchanged */
		    probe_steps = 0; probe_armed = 1;
		    if (!res->violated && pixman_glyph_cache_lookup (cache, FK (font), FK (g2)))
			sim_violation (res, "C17", "C17/failed-insert-left-entry", op_names[op->kind], "insert of (%d,%d) returned NULL but the key is now present", font, g2);
		    probe_armed = 0;
		    if (op->kind == G_FILL) break;
		    continue;
		}
		{
		    entry_t *e = &E[nE++];
		    int n32 = gi[s].stride * gi[s].h / 4;
		    e->font = font; e->glyph = g2; e->ox = ox; e->oy = oy; e->ptr = p; e->stamp = ++stamp;
		    if (rk_take (font, g2) && T > 0) T--;
		    e->copy_bits = malloc (n32 * 4);
		    memcpy (e->copy_bits, gi[s].bits, n32 * 4);
		    e->copy = pixman_image_create_bits (gi[s].fmt, gi[s].w, gi[s].h, e->copy_bits, gi[s].stride);
		    if (PIXMAN_FORMAT_A (gi[s].fmt) && PIXMAN_FORMAT_RGB (gi[s].fmt)) pixman_image_set_component_alpha (e->copy, TRUE);
		    if (nE > max_entries) max_entries = nE;
		}
	    }
	    if (thaw_after && !res->violated)
	    {
		/* a thaw that may evict: handled by an explicit thaw op only; keep frozen instead */
	    }
	    break;
	}
	case G_LOOKUP:
	{
	    int k = find (font, glyph);
	    const void *p;
	    probe_armed = 1;
	    p = pixman_glyph_cache_lookup (cache, FK (font), FK (glyph));
	    probe_armed = 0;
	    lookups++;
	    if (k >= 0 && p != E[k].ptr)
		sim_violation (res, "C17", p ? "C17/lookup-returns-wrong-entry" : "C17/lookup-misses-live-entry", "lookup",
			       "lookup(%d,%d) returned %s, the model holds a live entry", font, glyph, p ? "another pointer" : "NULL");
	    if (k < 0 && p)
		sim_violation (res, "C17", "C17/lookup-finds-absent-key", "lookup", "lookup(%d,%d) returned an entry for a key that was never inserted or was removed", font, glyph);
	    h = fnv_u64 (h, (uint64_t)(p != NULL));
	    break;
	}
	case G_REMOVE:
	{
	    int k = find (font, glyph);
	    sim_alloc_enter (j, 0, 0, 0);
	    probe_armed = 1;
	    pixman_glyph_cache_remove (cache, FK (font), FK (glyph));
	    probe_armed = 0;
	    sim_alloc_leave ();
	    if (k >= 0) { drop (k); T++; rk_add (font, glyph); }
	    probe_steps = 0; probe_armed = 1;
	    if (pixman_glyph_cache_lookup (cache, FK (font), FK (glyph)))
		sim_violation (res, "C17", "C17/removed-key-still-present", "remove", "lookup(%d,%d) still finds the key after remove", font, glyph);
	    probe_armed = 0;
	    break;
	}
	case G_SCRIBBLE:
	{
	    int s = (int)sim_mod (A (0), NIMG);
	    if (gi[s].img) fill_words (gi[s].bits, gi[s].stride * gi[s].h / 4, (uint64_t)A (1));
	    break;
	}
	case G_DRAW:
	{
	    /* use_mask op maskfmt n (x y font glyph)* */
	    int use_mask = (int)sim_mod (A (0), 2), n = (int)sim_clamp (A (3), 0, 10), k, ng = 0, frozen_here = 0;
	    pixman_op_t pop = sim_ops[sim_mod (A (1), sim_n_ops)];
	    pixman_format_code_t mf = mfmts[sim_mod (A (2), N_MFMTS)];
	    pixman_glyph_t g[10];
	    int ex[10], gx[10], gy[10];
	    if (depth == 0) { pixman_glyph_cache_freeze (cache); depth = 1; frozen_here = 1; }
	    for (k = 0; k < n; k++)
	    {
		int f2 = (int)(1 + sim_mod (A (6 + 4 * k), 4)), g2 = (int)(1 + sim_mod (A (7 + 4 * k), 60000));
		int e = find (f2, g2), w, hh;
		if (e < 0) continue;
		w = pixman_image_get_width (E[e].copy); hh = pixman_image_get_height (E[e].copy);
		/* whole glyph inside the destination, so that "drawn" (and hence LRU order) is unambiguous */
		gx[ng] = (int)sim_clamp (A (4 + 4 * k), 0, DW - w) + E[e].ox;
		gy[ng] = (int)sim_clamp (A (5 + 4 * k), 0, DH - hh) + E[e].oy;
		g[ng].x = gx[ng]; g[ng].y = gy[ng]; g[ng].glyph = E[e].ptr;
		ex[ng] = e;
		ng++;
	    }
	    memcpy (dbits[1], dbits[0], DW * DH * 4);
	    sim_alloc_enter (j, 0, 0, 0);
	    if (use_mask) pixman_composite_glyphs (pop, src, dimg[0], mf, 0, 0, 0, 0, 0, 0, DW, DH, cache, ng, g);
	    else pixman_composite_glyphs_no_mask (pop, src, dimg[0], 0, 0, 0, 0, cache, ng, g);
	    sim_alloc_leave ();
	    reference_draw (pop, src, dimg[1], use_mask, mf, ng, ex, gx, gy);
	    draws++;
	    for (k = 0; k < ng; k++) E[ex[k]].stamp = ++stamp;
	    if (memcmp (dbits[0], dbits[1], DW * DH * 4))
	    {
		int px;
		for (px = 0; px < DW * DH; px++) if (dbits[0][px] != dbits[1][px]) break;
		sim_violation (res, "C17", use_mask ? "C17/composite_glyphs-differs-from-mask-accumulation" : "C17/composite_glyphs_no_mask-differs-from-per-glyph-compositing",
			       pop == PIXMAN_OP_DISJOINT_SRC || pop == PIXMAN_OP_CONJOINT_SRC ? "draw:disjoint-or-conjoint-SRC" : "draw", "%d glyph(s), operator %d: pixel (%d,%d) is %08x, the per-glyph reference gives %08x", ng, (int)pop, px % DW, px / DW, dbits[0][px], dbits[1][px]);
	    }
	    h = fnv_bytes (h, dbits[0], DW * DH * 4);
	    if (frozen_here && !res->violated) { /* stay frozen; an explicit thaw decides about eviction */ }
	    break;
	}
	}
	h = fnv_u64 (h, ((uint64_t)j << 20) ^ (uint64_t)nE);
	sim_count (op_names[op->kind], 1);
    }

    /* teardown: destroy releases everything */
    probe_armed = 0;
    sim_alloc_enter (sc->n_ops, 0, 0, 0);
    while (depth > 0) { pixman_glyph_cache_thaw (cache); depth--; }
    pixman_glyph_cache_destroy (cache);
    sim_alloc_leave ();
    while (nE) drop (0);
    for (i = 0; i < NIMG; i++) if (gi[i].img) { pixman_image_unref (gi[i].img); free (gi[i].bits); }
    for (i = 0; i < 2; i++) { pixman_image_unref (dimg[i]); free (dbits[i]); }
    pixman_image_unref (src);
    if (!res->violated && sim_alloc.live_blocks)
	sim_violation (res, "C17", "C17/cache-destroy-leaks", "destroy", "%lld block(s) of the cache still allocated after pixman_glyph_cache_destroy", (long long)sim_alloc.live_blocks);
    sim_alloc.tracking = 0;
    sim_point_handler = NULL;
    sim_count ("lookups_checked", lookups);
    sim_count ("entries_evicted_by_thaw", evictions);
    sim_count ("thaw_emptied_table", thaw_empty);
    sim_count ("inserts_refused_full", refusals);
    sim_count ("glyph_runs_compared", draws);
    sim_count ("faults_fired", faults);
    sim_count ("ops_executed", sc->n_ops);
    if (max_entries >= HASH_SIZE / 2) sim_count ("runs_reaching_half_table", 1);
    if (max_entries >= HASH_SIZE - 2) sim_count ("runs_filling_table", 1);
    res->hash = h;
    res->key = h;
    res->nontrivial = max_entries >= 3 && lookups >= 3;
}

/* ---------------------------------------------------------------- generator */

static void
generate (uint64_t seed, int tier, const char *property, scenario_t *sc)
{
    rng_t r;
    int n_ops, i, small = HASH_SIZE <= 256;
    int keyspace;
    static const int chains[] = { 0, 0, 15, 16, 4 };
    if (tier == 2)
    {
	/* exhaustive small scope: `seed` is an index; its base-14 digits are a history of
	 * EXH_LEN operations over four keys that all collide ((1,5) (2,4) (3,3) (4,2)):
	 * freeze, thaw, insert k, lookup k, remove k */
	uint64_t x = seed;
	sc_set (sc, "chain", 0);
	sc_set (sc, "table_slots", HASH_SIZE);
	sc_add (sc, G_IMG, 5, (int64_t)0, (int64_t)0, (int64_t)3, (int64_t)3, (int64_t)12345);
	for (i = 0; i < EXH_LEN; i++)
	{
	    int d = (int)(x % 14); x /= 14;
	    if (d == 0) sc_add (sc, G_FREEZE, 0);
	    else if (d == 1) sc_add (sc, G_THAW, 0);
	    else
	    {
		int k = (d - 2) % 4, what = (d - 2) / 4;
		int64_t font = k, glyph = 4 - k;           /* font = 1 + k, glyph = 1 + (4 - k): sum 6 for all four */
		if (what == 0) sc_add (sc, G_INSERT, 7, font, glyph, (int64_t)0, (int64_t)0, (int64_t)0, (int64_t)0, (int64_t)0);
		else if (what == 1) sc_add (sc, G_LOOKUP, 2, font, glyph);
		else sc_add (sc, G_REMOVE, 2, font, glyph);
	    }
	}
	return;
    }
    rng_seed (&r, seed, 6);
    keyspace = small ? (int)rng_range (&r, 6, HASH_SIZE + 6) : 40;
    n_ops = (int)rng_range (&r, 20, tier ? 160 : 90);
    sc_set (sc, "chain", chains[rng_n (&r, 5)]);
    sc_set (sc, "table_slots", HASH_SIZE);
    for (i = 0; i < NIMG; i++)
	sc_add (sc, G_IMG, 5, (int64_t)i, (int64_t)rng_n (&r, 13), (int64_t)rng_range (&r, 1, 8), (int64_t)rng_range (&r, 1, 8), (int64_t)(rng_u64 (&r) >> 20));
    for (i = 0; i < n_ops; i++)
    {
	int roll = (int)rng_n (&r, 100);
	int64_t font = rng_n (&r, 4), glyph = rng_n (&r, keyspace);
	/* exact hash collisions: the hash only sees font + glyph */
	if (rng_chance (&r, 1, 3)) { font = rng_n (&r, 4); glyph = 6 - font + rng_n (&r, 2) * 4; }
	if (roll < 8) sc_add (sc, G_FREEZE, 0);
	else if (roll < 18) sc_add (sc, G_THAW, 0);
	else if (roll < 42)
	{
	    int fk = rng_chance (&r, 1, 12) ? (int)rng_range (&r, 1, 3) : 0;
	    static const int64_t far[] = { 32767, -32768, 32768, -32769, 40000, -40000, 65538, -65534, 100000, -131071 };
	    int64_t ox = rng_range (&r, -3, 3), oy = rng_range (&r, -3, 3);
	    /* an origin is an int, not a 16-bit quantity: the glyph is then positioned far away so that it still lands in the destination */
	    if (rng_chance (&r, 1, 8)) { if (rng_chance (&r, 1, 2)) ox = far[rng_n (&r, 10)]; else oy = far[rng_n (&r, 10)]; }
	    sc_add (sc, G_INSERT, 7, font, glyph, ox, oy, (int64_t)rng_n (&r, NIMG), (int64_t)fk, (int64_t)rng_range (&r, 1, 2));
	}
	else if (roll < 58) sc_add (sc, G_LOOKUP, 2, font, glyph);
	else if (roll < 72) sc_add (sc, G_REMOVE, 2, font, glyph);
	else if (roll < 75) sc_add (sc, G_SCRIBBLE, 2, (int64_t)rng_n (&r, NIMG), (int64_t)(rng_u64 (&r) >> 20));
	else if (roll < 92)
	{
	    int64_t a[SIM_MAX_ARGS];
	    int n = 0, cnt = (int)rng_range (&r, 1, 8), k;
	    a[n++] = rng_n (&r, 2);
	    a[n++] = rng_chance (&r, 1, 2) ? (rng_chance (&r, 1, 2) ? 3 : 12) : (int64_t)rng_n (&r, sim_n_ops);
	    a[n++] = rng_chance (&r, 2, 3) ? rng_n (&r, 4) : rng_n (&r, N_MFMTS); a[n++] = cnt;
	    for (k = 0; k < cnt; k++)
	    {
		a[n++] = rng_range (&r, 0, DW); a[n++] = rng_range (&r, 0, DH);
		if (rng_chance (&r, 1, 3)) { int64_t f2 = rng_n (&r, 4); a[n++] = f2; a[n++] = 6 - f2 + rng_n (&r, 2) * 4; }
		else { a[n++] = rng_n (&r, 4); a[n++] = rng_n (&r, keyspace); }
	    }
	    sc_addv (sc, G_DRAW, n, a);
	}
	else if (small || rng_chance (&r, 1, 6))
	{
	    /* table-filling run of fresh keys */
	    int cnt = small ? (int)rng_range (&r, 2, HASH_SIZE + 3) : (int)rng_range (&r, HASH_SIZE - 40, HASH_SIZE + 5);
	    sc_add (sc, G_FILL, 4, font, (int64_t)(100 + rng_n (&r, 50000)), (int64_t)cnt, (int64_t)rng_n (&r, NIMG));
	}
	else sc_add (sc, G_LOOKUP, 2, font, glyph);
    }
}

static const world_t world = { "glyph", op_names, G_N, generate, execute, chains_init };

int
main (int argc, char **argv)
{
    return sim_main (argc, argv, &world);
}
