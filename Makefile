# Builds the pixman objects straight from /repo's working tree (never from a
# copy or an installed library) with the PIXMAN_VERIF hook guard on, in the
# variants the worlds need, plus the simulator itself.
#
#   make V=asan worlds     everything ASan-instrumented (default variant)
#   make V=opt  worlds     -O2, what ships
#   make V=tsan thread     clang ThreadSanitizer build of the thread world
#
# Output lives in /verif/build/<variant>/ and is git-ignored.

REPO   ?= /repo
V      ?= asan
B      := build/$(V)
PX     := $(REPO)/pixman

PIXMAN_SRCS := pixman.c pixman-access.c pixman-access-accessors.c \
  pixman-bits-image.c pixman-combine32.c pixman-combine-float.c \
  pixman-conical-gradient.c pixman-filter.c pixman-x86.c pixman-mips.c \
  pixman-arm.c pixman-ppc.c pixman-edge.c pixman-edge-accessors.c \
  pixman-fast-path.c pixman-glyph.c pixman-general.c \
  pixman-gradient-walker.c pixman-image.c pixman-implementation.c \
  pixman-linear-gradient.c pixman-matrix.c pixman-noop.c \
  pixman-radial-gradient.c pixman-region16.c pixman-region32.c \
  pixman-solid-fill.c pixman-timer.c pixman-trap.c pixman-utils.c \
  pixman-mmx.c pixman-sse2.c pixman-ssse3.c

COMMON := -g -fno-strict-aliasing -ftrapping-math -DHAVE_CONFIG_H -DPIXMAN_VERIF \
          -I$(B)/gen -Iconfig -I$(PX) -Isim/core -D_GNU_SOURCE -fno-omit-frame-pointer

ASAN_FLAGS := -fsanitize=address \
  -fsanitize=bounds,null,object-size,return,unreachable,vla-bound \
  -fno-sanitize-recover=bounds,null,object-size,return,unreachable,vla-bound

ifeq ($(V),asan)
  CC       := gcc
  OPT      := -O1
  SAN      := $(ASAN_FLAGS)
  SIMSAN   := $(ASAN_FLAGS)
  LDSAN    := $(ASAN_FLAGS)
  VARDEF   := -DSIM_VARIANT_ASAN
endif
ifeq ($(V),opt)
  CC       := gcc
  OPT      := -O2
  SAN      :=
  SIMSAN   :=
  LDSAN    :=
  VARDEF   := -DSIM_VARIANT_OPT
endif
ifeq ($(V),casan)
  # clang's view of the same sources: behaviour that is undefined in C (signed
  # overflow in coordinate arithmetic) comes out differently than with gcc
  CC       := clang
  OPT      := -O1
  SAN      := -fsanitize=address
  SIMSAN   := -fsanitize=address
  LDSAN    := -fsanitize=address
  VARDEF   := -DSIM_VARIANT_ASAN
endif
ifeq ($(V),tsan)
  CC       := clang
  OPT      := -O1
  SAN      := -fsanitize=thread
  SIMSAN   := -fsanitize=thread
  LDSAN    := -fsanitize=thread
  VARDEF   := -DSIM_VARIANT_TSAN
endif

PIXMAN_OBJS := $(addprefix $(B)/pixman/,$(PIXMAN_SRCS:.c=.o))
# small-scope glyph tables (hook H4) and short scanline buffers (hook H5)
GLYPH_SMALL_OBJS := $(B)/pixman-small/pixman-glyph-16.o $(B)/pixman-small/pixman-glyph-64.o
CORE_SRCS   := sim.c arena.c wrapalloc.c chains.c digest.c machine.c gen.c
CORE_OBJS   := $(addprefix $(B)/core/,$(CORE_SRCS:.c=.o))

WRAP := -Wl,--wrap=malloc,--wrap=calloc,--wrap=realloc,--wrap=free

WORLDS := region glyph16 glyph64 glyph fault fault-short hist hist16 cfg thread sample

.PHONY: worlds clean all
all: worlds
worlds: $(addprefix $(B)/,$(WORLDS))

$(B)/gen/pixman-version.h: $(PX)/pixman-version.h.in $(REPO)/meson.build
	@mkdir -p $(B)/gen
	@maj=0; min=0; mic=0; \
	ver=$$(sed -n "s/^ *version *: *'\([0-9.]*\)'.*/\1/p" $(REPO)/meson.build | head -1); \
	maj=$${ver%%.*}; rest=$${ver#*.}; min=$${rest%%.*}; mic=$${rest#*.}; \
	sed -e "s/@PIXMAN_VERSION_MAJOR@/$$maj/g" -e "s/@PIXMAN_VERSION_MINOR@/$$min/g" \
	    -e "s/@PIXMAN_VERSION_MICRO@/$$mic/g" $< > $@

$(B)/pixman/pixman-mmx.o:   EXTRA := -mmmx -Winline
$(B)/pixman/pixman-sse2.o:  EXTRA := -msse2 -Winline
$(B)/pixman/pixman-ssse3.o: EXTRA := -mssse3 -Winline

$(B)/pixman/%.o: $(PX)/%.c $(B)/gen/pixman-version.h
	@mkdir -p $(dir $@)
	$(CC) $(OPT) $(COMMON) $(SAN) $(EXTRA) -w -MMD -MP -c $< -o $@

$(B)/pixman-small/pixman-glyph-16.o: $(PX)/pixman-glyph.c $(B)/gen/pixman-version.h
	@mkdir -p $(dir $@)
	$(CC) $(OPT) $(COMMON) $(SAN) -w -MMD -MP -DPIXMAN_VERIF_GLYPH_HIGH_WATER=8 -DPIXMAN_VERIF_GLYPH_LOW_WATER=4 -c $< -o $@
$(B)/pixman-small/pixman-glyph-64.o: $(PX)/pixman-glyph.c $(B)/gen/pixman-version.h
	@mkdir -p $(dir $@)
	$(CC) $(OPT) $(COMMON) $(SAN) -w -MMD -MP -DPIXMAN_VERIF_GLYPH_HIGH_WATER=32 -DPIXMAN_VERIF_GLYPH_LOW_WATER=16 -c $< -o $@
$(B)/pixman-small/pixman-general-short.o: $(PX)/pixman-general.c $(B)/gen/pixman-version.h
	@mkdir -p $(dir $@)
	$(CC) $(OPT) $(COMMON) $(SAN) -w -MMD -MP -DPIXMAN_VERIF_SCANLINE_BUFFER_LENGTH=64 -c $< -o $@

# baton.c must never be instrumented by TSan: hand-offs between simulated
# threads must not create happens-before edges.
$(B)/core/baton.o: sim/core/baton.c
	@mkdir -p $(dir $@)
	$(CC) $(OPT) $(COMMON) -Wall -MMD -MP -c $< -o $@

$(B)/core/%.o: sim/core/%.c $(B)/gen/pixman-version.h
	@mkdir -p $(dir $@)
	$(CC) $(OPT) $(COMMON) $(SIMSAN) $(VARDEF) -Wall -Wno-unused-function -Wno-frame-address -MMD -MP -c $< -o $@

$(B)/worlds/%.o: sim/worlds/%.c $(B)/gen/pixman-version.h
	@mkdir -p $(dir $@)
	$(CC) $(OPT) $(COMMON) $(SIMSAN) $(VARDEF) -Wall -Wno-unused-function -MMD -MP -c $< -o $@

$(B)/libpixman.a: $(PIXMAN_OBJS)
	@rm -f $@
	ar rcs $@ $^

LINK = $(CC) -no-pie -rdynamic $(LDSAN) -o $@ $(filter %.o,$^) $(B)/libpixman.a $(WRAP) -lm -lpthread -ldl

$(B)/region: $(B)/worlds/region.o $(CORE_OBJS) $(B)/libpixman.a
	$(LINK)
$(B)/fault: $(B)/worlds/fault.o $(CORE_OBJS) $(B)/libpixman.a
	$(LINK)
$(B)/hist: $(B)/worlds/hist.o $(CORE_OBJS) $(B)/libpixman.a
	$(LINK)
# hook H5: 64-byte scanline buffers, so that the heap-buffer path of the general
# compositor (and its allocation-failure branch) runs at ordinary widths
$(B)/fault-short: $(B)/worlds/fault.o $(B)/pixman-small/pixman-general-short.o $(CORE_OBJS) $(B)/libpixman.a
	$(LINK)
$(B)/hist16: $(B)/worlds/hist.o $(B)/pixman-small/pixman-glyph-16.o $(CORE_OBJS) $(B)/libpixman.a
	$(LINK)
$(B)/sample: $(B)/worlds/sample.o $(CORE_OBJS) $(B)/libpixman.a
	$(LINK)
$(B)/cfg: $(B)/worlds/cfg.o $(CORE_OBJS) $(B)/libpixman.a
	$(LINK)
$(B)/worlds/glyph-16.o: sim/worlds/glyph.c $(B)/gen/pixman-version.h
	@mkdir -p $(dir $@)
	$(CC) $(OPT) $(COMMON) $(SIMSAN) $(VARDEF) -DSIM_GLYPH_HIGH=8 -DSIM_GLYPH_LOW=4 -Wall -Wno-unused-function -MMD -MP -c $< -o $@
$(B)/worlds/glyph-64.o: sim/worlds/glyph.c $(B)/gen/pixman-version.h
	@mkdir -p $(dir $@)
	$(CC) $(OPT) $(COMMON) $(SIMSAN) $(VARDEF) -DSIM_GLYPH_HIGH=32 -DSIM_GLYPH_LOW=16 -Wall -Wno-unused-function -MMD -MP -c $< -o $@
$(B)/glyph: $(B)/worlds/glyph.o $(CORE_OBJS) $(B)/libpixman.a
	$(LINK)
# the small-scope object is named first, so the archive's pixman-glyph.o is
# never pulled in
$(B)/glyph16: $(B)/worlds/glyph-16.o $(B)/pixman-small/pixman-glyph-16.o $(CORE_OBJS) $(B)/libpixman.a
	$(LINK)
$(B)/glyph64: $(B)/worlds/glyph-64.o $(B)/pixman-small/pixman-glyph-64.o $(CORE_OBJS) $(B)/libpixman.a
	$(LINK)
$(B)/thread: $(B)/worlds/thread.o $(B)/core/baton.o $(CORE_OBJS) $(B)/libpixman.a
	$(LINK)

clean:
	rm -rf build

-include $(wildcard $(B)/pixman/*.d $(B)/pixman-small/*.d $(B)/core/*.d $(B)/worlds/*.d)
