#!/usr/bin/env python3
"""Assembles /verif/seeded/<id>/ from the sub-agents' output (/tmp/mut), my own verification
results (verify.result) and the change x check matrix (/tmp/mut/matrix.tsv)."""
import os, json, shutil, glob, collections
SRC = '/tmp/mut'
DST = '/verif/seeded'
matrix = collections.defaultdict(dict)
if os.path.exists(SRC + '/matrix.tsv'):
    for l in open(SRC + '/matrix.tsv'):
        f = l.rstrip('\n').split('\t')
        if len(f) >= 3:
            matrix[f[0]][f[1]] = (f[2], f[3] if len(f) > 3 else '')
final = {}
if os.path.exists(SRC + '/final_sweep.tsv'):
    for l in open(SRC + '/final_sweep.tsv'):
        f = l.rstrip('\n').split('\t')
        if len(f) >= 3:
            final[f[0]] = (f[1], f[2], f[3] if len(f) > 3 else '')
os.makedirs(DST, exist_ok=True)
rows = []
import re
def own_detect(d):
    """results of bin/mutdetect.sh runs kept next to the change: detect.<P>.log"""
    out = {}
    for f in glob.glob(os.path.join(d, 'detect.*.log')):
        P = os.path.basename(f).split('.')[1]
        txt = open(f, errors='replace').read()
        nv = len(re.findall(r'^VIOLATION', txt, re.M))
        cls = ','.join(sorted(set(re.findall(r'class=(\S+)', txt)))[:3])
        out[P] = {'exit': '1' if nv else ('2' if 'HARNESS FAULT' in txt else '0'), 'classes': cls}
    return out

for d in sorted(glob.glob(SRC + '/C??/[0-9]')) + sorted(glob.glob('/tmp/mut2/C??/[0-9]')) + sorted(glob.glob('/tmp/mut3/C??/[0-9]')) + sorted(glob.glob('/tmp/mut4/C??/[0-9]')) + sorted(glob.glob('/tmp/mut5/C??/[0-9]')) + sorted(glob.glob('/tmp/mut6/C??/[0-9]')) + sorted(glob.glob('/tmp/mut7/C??/[0-9]')) + sorted(glob.glob('/tmp/mut8/C??/[0-9]')) + sorted(glob.glob('/tmp/mut9/C??/[0-9]')) + sorted(glob.glob('/tmp/mut10/C??/[0-9]')) + sorted(glob.glob('/tmp/mut11/C??/[0-9]')):
    prop = os.path.basename(os.path.dirname(d)); n = os.path.basename(d)
    mid = '%s-%s' % (prop, n) if d.startswith(SRC + '/') else '%s-r%s-%s' % (prop, re.match(r'/tmp/mut(\d+)/', d).group(1), n)
    out = os.path.join(DST, mid)
    os.makedirs(out, exist_ok=True)
    for fn in ('patch.diff', 'demo.c', 'README.md'):
        if os.path.exists(os.path.join(d, fn)):
            shutil.copy(os.path.join(d, fn), os.path.join(out, fn))
    if os.path.exists(os.path.join(d, 'patch.orig.diff')):
        shutil.copy(os.path.join(d, 'patch.orig.diff'), os.path.join(out, 'patch.orig.diff'))
    try:
        meta = json.load(open(os.path.join(d, 'meta.json')))
    except Exception:
        meta = {}
    ver = ''
    if os.path.exists(os.path.join(d, 'verify.result')):
        ver = [l.strip() for l in open(os.path.join(d, 'verify.result')) if l.startswith('RESULT')]
        ver = ver[-1] if ver else ''
    det = {p: {'exit': rc, 'classes': cls} for p, (rc, cls) in sorted(matrix.get(mid, {}).items())}
    latest = own_detect(d)           # re-runs after the checks were strengthened supersede the matrix row
    for P, v in latest.items():
        if P not in det or v['exit'] == '1':
            det[P] = v
    if mid in final and final[mid][1] in ('0', '1', '2'):
        # the sweep over all changes with the checks in their final state
        # (authoritative: it overrides earlier runs of that check, also when it is a miss)
        P, rc, cls = final[mid]
        det[P] = {'exit': rc, 'classes': cls, 'final_sweep': True}
    meta.update({
        'id': mid,
        'breaks_property': prop,
        'produced_by': 'fresh sub-agent given only the text of %s and a scratch worktree of /repo' % prop,
        'verified_by_me': {'how': ('bin/verify_mutant_tsan.sh (library also built with -Db_sanitize=thread; demo run plain and under TSan)' if 'tsan_demo_rc' in ver else 'bin/verify_mutant.sh') + ' in a scratch worktree at /repo HEAD: demo on clean tree; git apply; meson compile; meson test; demo on changed tree; git checkout',
                           'result': ver},
        'checks_run_against_it': {'how': 'bin/mutmatrix.sh: git -C /repo apply patch.diff; bin/check <P> quick for every claimed property; git -C /repo checkout -- .', 'results': det},
        'caught_by': sorted(p for p, v in det.items() if v['exit'] == '1'),
    })
    try:
        prev = json.load(open(os.path.join(out, 'meta.json')))
        if 'note' in prev:
            meta['note'] = prev['note']         # hand-written remarks survive regeneration
    except Exception:
        pass
    json.dump(meta, open(os.path.join(out, 'meta.json'), 'w'), indent=1)
    rows.append((mid, meta.get('needs', ''), det))
props = ['C02', 'C04', 'C06', 'C08', 'C14', 'C15', 'C16', 'C17', 'C19', 'C20']
with open(os.path.join(DST, 'MATRIX.md'), 'w') as f:
    f.write('# Seeded changes x checks (quick tier)\n\n1 = the check reported a VIOLATION (exit 1), 0 = silent, 2 = harness fault, - = that pair was not run (the full matrix was run for rounds 1 and 2; later rounds were run against the check of their own property, and against C02 or C15 where the change needs a mask or an allocation failure). '
            'The diagonal block (a change against the check of the property it was written to break) is the sensitivity result; '
            'off-diagonal 1s are changes that really break that other property as well (see the classes in each meta.json), not false alarms.\n\n')
    f.write('| change | ' + ' | '.join(props) + ' | needs |\n|---|' + '---|' * (len(props) + 1) + '\n')
    for mid, needs, det in rows:
        f.write('| %s | ' % mid + ' | '.join((det.get(p, {}).get('exit', '-')) for p in props) + ' | %s |\n' % needs.replace('|', '/')[:160])
print('seeded:', len(rows))
