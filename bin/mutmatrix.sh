#!/bin/bash
# every seeded change x every check (quick): which checks catch which change, and which stay silent
cd /verif
OUT=/tmp/mut/matrix.tsv
: > $OUT
for d in /tmp/mut/C??/?; do
  id=$(basename $(dirname $d))-$(basename $d)
  git -C /repo diff --quiet || { echo "/repo dirty"; exit 2; }
  git -C /repo apply $d/patch.diff || { echo "$id patch does not apply" >> $OUT; continue; }
  for P in C02 C04 C06 C08 C14 C15 C16 C17 C19 C20; do
     bin/check $P quick > $d/matrix.$P.log 2>&1; rc=$?
     cls=$(grep -A1 '^VIOLATION' $d/matrix.$P.log | grep -o 'class=[^ ]*' | sort -u | head -3 | tr '\n' ',')
     echo -e "$id\t$P\t$rc\t$cls" >> $OUT
     for f in $(grep -o "replay=replays/[^] ]*" $d/matrix.$P.log | cut -d= -f2); do mv $f /tmp/mutreplays/ 2>/dev/null; done
  done
  git -C /repo checkout -- .
done
echo MATRIX-DONE >> $OUT
