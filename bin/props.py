"""Per-property configuration of the pxsim driver."""

COMMON_ASSUME = [
    "build configuration frozen in /verif/config/config.h (TLS __thread, constructor attribute, MMX+SSE2+SSSE3); pixman's own .c/.h files are compiled from /repo's working tree on every run",
    "sampling, not proof: the input dimension is drawn from the seed",
    "only the x86-64 implementations exist on this machine",
]

PROPS = {}

PROPS['C06'] = {
    'level': 'exploration',
    'passes': [
        {'variant': 'asan', 'binary': 'region', 'runs': [120000, 3000000], 'deadline_s': [120, 1500]},
    ],
    'rule': ("one evaluation = one seeded history of 20-80 (thorough: 20-120) region operations over two pools of six "
             "long-lived regions (16- and 32-bit), with allocation failures as history events; after every op the canonical-form "
             "invariants are checked on every region of the pool and equal() is compared with point-set equality for the region "
             "just written against all others.  Non-trivial = some region reached >= 3 rectangles and more than 6 times two "
             "objects held the same non-empty point set; distinct = distinct event hashes (op kinds, return values, allocation "
             "counts and every resulting rectangle list) among the non-trivial runs"),
    'real_vs_stub': {'real': ['pixman-region16.c', 'pixman-region32.c', 'pixman-region.c', 'pixman-utils.c (16<->32 conversion)',
                              'pixman-bits-image.c (a1 image for init_from_image)'],
                     'stub_or_simulated': ['malloc/calloc/realloc failures injected by the link-time allocator wrapper']},
    'assumptions': COMMON_ASSUME + [
        "point sets are derived from the implementation's own rectangle lists, so a wrong-but-canonical result of the set algebra (C05) is deliberately not reported here",
        "a region whose operation reported failure is re-initialised before it is used again; what a failed call leaves behind is C15's clause",
        "zero-sized and inverted boxes are kept out of inverse() and reset(), where the library documents them as caller errors",
    ],
    'probes': ['faults_fired', 'runs_reaching_8_rects', 'pair_coincidences_nonempty', 'convert', 'translate', 'init_from_image'],
}

IMG_REAL = ['all of pixman (33 objects compiled from /repo/pixman with -DPIXMAN_VERIF)']

PROPS['C15'] = {
    'level': 'fault_enumeration',
    'passes': [
        {'variant': 'asan', 'binary': 'fault', 'runs': [24000, 60000], 'deadline_s': [150, 2400], 'tag': 'fault'},
        {'variant': 'asan', 'binary': 'fault-short', 'runs': [8000, 20000], 'deadline_s': [150, 2400], 'tag': 'short-scanline'},
    ],
    'crash_property': 'C15',
    'rule': ("one evaluation = one seeded scenario of 8-28 API operations (constructors, setters, region algebra, composites incl. >2044-pixel-wide, "
             "wide-format and alpha-map destinations, fills, trapezoids/triangles, glyph cache + glyph runs, filter tables).  It is run fault-free to "
             "count the allocations n_i of each op; then for each planned fault (quick: the ops that carry a sampled fault, ordinal taken modulo n_i; "
             "thorough: EVERY (op i, k <= n_i) x {single, persistent}) a fault-free and a faulted machine run the list in lock step and are compared "
             "after every op.  Non-trivial = at least one injected failure was actually reached; distinct = distinct event hashes (return values, "
             "which faults fired, final state)"),
    'real_vs_stub': {'real': IMG_REAL, 'stub_or_simulated': ['malloc/calloc/realloc failures (link-time --wrap; real allocator underneath)', 'pixel storage from the simulator arena', 'accessor callbacks']},
    'assumptions': COMMON_ASSUME + [
        "the oracle is the same library running fault-free (differential): a change of what pixman draws is invisible here by design",
        "inside the request rectangle pixel values after a failed allocation are not constrained (the property allows skipped work)",
        "the load-time constructor's allocations (_pixman_implementation_create) are outside any API call and not faulted",
        "crashes in the fault-free pass are reported too (class crash-*), since the driver cannot tell them apart from crashes under fault",
    ],
    'probes': ['faults_fired', 'failure_reported', 'fault_absorbed', 'reissued_after_failure', 'broken_region_checked'],
    'shrink_budget': 300,
}

CFG_STUB = ['PIXMAN_DISABLE environment variable (set by the simulator before the real _pixman_choose_implementation())', 'pixel storage from the simulator arena', 'accessor callbacks']

PROPS['C02'] = {
    'level': 'exploration',
    'passes': [{'variant': 'opt', 'binary': 'cfg', 'runs': [36000, 800000], 'deadline_s': [150, 2400]}],
    'rule': ("one evaluation = one seeded scene (2 destinations, 3-5 sources/masks with transforms, filters, repeats, clips, alpha maps) and 4-10 drawing "
             "requests (composite32 over all 53 operators weighted to those with fast paths, fill_boxes/rectangles, fill, blt, trapezoids, triangles, glyph runs; flavours aimed at the "
             "scaled nearest/bilinear fast paths, solid colours through a mask, the pixbuf idiom of two images of different formats over the same pixels, and - a quarter of the runs - a walk of the library's own fast-path tables: one entry of "
             "one delegate's table, operands and 3-7 requests built to fit its operator, formats and flag words, pixel content in short runs of transparent / opaque / mixed pixels; "
             "boolean setters get 0, 1, 2 and -1), "
             "executed under ALL 32 delegation chains (every subset of {fast,mmx,sse2,ssse3} x wholeops), each on a fresh thread from identical buffers at a "
             "seed-chosen alignment; every destination is compared with the general-only chain on its defined bits.  Non-trivial = every chain drew at least once; "
             "distinct = distinct event hashes (all per-op destination digests of all chains)"),
    'real_vs_stub': {'real': IMG_REAL, 'stub_or_simulated': CFG_STUB},
    'assumptions': COMMON_ASSUME + ["unused x bits of a pixel and alpha-map don't-care bits are not compared, exactly as test/utils.c masks them", "dither is never set (not in the property's quantifier)"],
    'probes': ['drawing_requests_x_chains'],
}
PROPS['C19'] = {
    'level': 'exploration',
    'passes': [{'variant': 'opt', 'binary': 'cfg', 'runs': [16000, 600000], 'deadline_s': [150, 2400]}],
    'rule': ("one evaluation = one seeded scenario of 4-12 pixman_fill / pixman_blt calls (bpp 1,4,8,16,24,32,128; every x/width residue, heights 1-5, padded and negative "
             "strides, seed-chosen alignment) or fill_boxes / fill_rectangles calls (any operator, 16-bit colours, any destination format, multi-rectangle clips, boxes "
             "partly outside), executed under ALL 32 chains next to a twin machine that applies the reference meaning (bit-exact set/copy; compositing a solid image over "
             "each box on the same chain); buffers compared after every call.  Non-trivial = every chain executed at least one request; distinct = distinct event hashes"),
    'real_vs_stub': {'real': IMG_REAL, 'stub_or_simulated': CFG_STUB},
    'assumptions': COMMON_ASSUME + ["the 25-line bit-by-bit fill/copy reference is trusted", "fill_boxes is compared with compositing on the same chain (differential), so a change of the compositing arithmetic itself is invisible here"],
    'probes': ['drawing_requests_x_chains'],
}
PROPS['C04'] = {
    'level': 'exploration',
    'passes': [{'variant': 'asan', 'binary': 'cfg', 'runs': [16000, 400000], 'deadline_s': [150, 2400], 'tag': 'gcc'},
               {'variant': 'casan', 'binary': 'cfg', 'runs': [8000, 200000], 'deadline_s': [150, 2400], 'tag': 'clang'}],
    'crash_property': 'C04',
    'rule': ("one evaluation = one seeded scene biased to the geometry the property lists (1-pixel and >32767-pixel images, request rectangles partly or wholly outside, "
             "offsets near +-2^15, extreme scale / translation / near-singular projective transforms, convolution kernels, trapezoids with endpoints at +-32767.99, glyphs half "
             "outside, fill boxes beyond the destination; exact-fit and scaled exact-fit requests that consume a tightly packed source to its last pixel; projective transforms whose true "
             "mapping stays inside the source while their affine part does not; rotations by 90/180/270 degrees with the translation at either end of the interval that keeps every "
             "sample inside; the fast-path table walk of C02 with operands exactly as large as the request needs; once in 400 runs an image of 4 GiB and a little whose pixels pixman allocates, with the oracle that the block "
             "it allocated holds the image it describes) executed under the general-only chain plus 5 seed-chosen chains, by a gcc and by a clang build; every image buffer is exact-size against a PROT_NONE "
             "page with poisoned, checked canaries on the other side; accessor images check every callback against the storage of the participating images; ASan watches pixman's "
             "own heap and stack.  Pixel values are not compared.  Non-trivial = every chain run drew at least once; distinct = distinct event hashes"),
    'real_vs_stub': {'real': IMG_REAL, 'stub_or_simulated': CFG_STUB},
    'assumptions': COMMON_ASSUME + ["inline-asm MMX loops are not ASan-instrumented: for them only the guard page and the canaries detect a stray access", "a stray read of less than 64 bytes on the slack side of a buffer is only caught where ASan instruments the access"],
    'probes': ['drawing_requests_x_chains'],
}

HIST_STUB = ['malloc/calloc/realloc failures as history events (link-time --wrap)', 'pixel storage from the simulator arena', 'accessor and destroy callbacks']
PROPS['C14'] = {
    'level': 'exploration',
    'passes': [{'variant': 'asan', 'binary': 'hist', 'runs': [12000, 400000], 'deadline_s': [150, 2400]}],
    'crash_property': 'C14',
    'rule': ("one evaluation = one seeded history of 30-100 (thorough: -140) operations on a pool of long-lived images: every pixman_image_set_* with values from small domains "
             "(so set-same-again, A-B-A and set-then-clear are constant), alpha maps attached / detached / re-attached / owner destroyed, caller scribbling over pixels, allocation "
             "failures in setters followed by a re-issue, interleaved with composites, fills, trapezoid and triangle requests that use the images as source, mask and destination.  "
             "Before every drawing request fresh replicas are built from the model and the request runs on both; destinations must agree on their defined bits.  A quarter of the runs "
             "execute the replica on a fresh thread (cold dispatch cache); the chain is seed-chosen.  Non-trivial = at least 3 replica comparisons; distinct = distinct event hashes"),
    'real_vs_stub': {'real': IMG_REAL, 'stub_or_simulated': HIST_STUB},
    'assumptions': COMMON_ASSUME + ["differential oracle: both sides are the same library, so a change of WHAT is drawn is invisible; only object-with-a-past vs fresh object differs",
                                    "the model records the last SUCCESSFULLY applied value of each property, alpha-map attachment according to the API's two refusal rules evaluated on the current state"],
    'probes': ['replica_comparisons', 'faults_fired', 'setter_reissued_after_fault', 'set_alpha_map', 'set_accessors', 'set_filter', 'set_clip32'],
}
PROPS['C20'] = {
    'level': 'exploration',
    'passes': [{'variant': 'asan', 'binary': 'hist', 'runs': [30000, 1000000], 'deadline_s': [150, 2400], 'tag': 'hist'},
               {'variant': 'asan', 'binary': 'hist16', 'runs': [10000, 300000], 'deadline_s': [150, 2400], 'tag': 'hist16'}],
    'crash_property': 'C20',
    'rule': ("one evaluation = one seeded history of 20-60 (thorough: -90) operations over a pool of up to 12 images: create (all kinds; caller-owned and library-owned pixels), ref, "
             "unref, set_destroy_function (also replaced / cleared mid-life), set_alpha_map in every legal and refused shape (self, chain, map that is itself mapped, re-attach, replace, "
             "detach, owner destroyed first, map unreffed first), setters that replace owned buffers, glyph-cache insert / remove / destroy, allocation failures as events; at the end "
             "the user drops every reference.  Oracle: reference-count + attachment model for unref's return value, destroy-callback ledger, exact live-block ledger (no leak, no double "
             "free, caller pixels never freed), ASan.  Second pass: the same with a 16-slot glyph table (hook H4).  Non-trivial = at least 3 images released; distinct = distinct event hashes"),
    'real_vs_stub': {'real': IMG_REAL, 'stub_or_simulated': HIST_STUB + ['glyph table size 16/8/4 in the hist16 pass (hook H4)']},
    'assumptions': COMMON_ASSUME + ["an image that is made its own alpha map counts as a chain (it both has a map and is one) and must be refused"],
    'probes': ['images_released', 'faults_fired', 'set_alpha_map', 'gc_insert', 'gc_remove', 'set_destroy'],
}

PROPS['C16'] = {
    'level': 'exploration',
    'passes': [{'variant': 'asan', 'binary': 'thread', 'runs': [8000, 300000], 'deadline_s': [120, 2400], 'tag': 'asan'},
               {'variant': 'tsan', 'binary': 'thread', 'runs': [4000, 150000], 'deadline_s': [120, 2400], 'tag': 'tsan',
                # lazily initialised process-wide state is cold only once per process: a fresh (forked) process every 20 runs
                'extra': ['--fresh-every', '20']}],
    'crash_property': 'C16',
    'recheck': 40,
    'rule': ("one evaluation = one seeded scene of 2-4 (thorough: -6) real pthreads, each with an explicit list of 10-25 (-40) operations (composites through fast paths and the general "
             "path, fills, fill_boxes, trapezoids, triangles, glyph runs, region algebra, private setters) on thread-private destinations, regions and glyph caches; four source "
             "images (one in ten a yuy2/yv12 one, one in three with another shared image as alpha map) and the main thread's regions (one in six the broken region) are shared read-only after a first use on the main thread; and one explicit schedule: at every scheduling point (API boundary, hooks H2/H3 around the fast "
             "path cache and in _pixman_image_validate, every k-th accessor callback) a decision 'stay' or 'switch to runnable thread j'.  Exactly one thread runs at a time "
             "(futex baton).  Checked: alone = together for every thread, the access ledger of the hooked sites, and (second pass) ThreadSanitizer, to which the baton is "
             "invisible; that pass runs every 20 scenarios in a freshly forked process so that lazily initialised process-wide state is met cold.  Non-trivial = at least 2 context switches taken; distinct = distinct realised interleavings (hash of the (point, from, to) sequence)"),
    'real_vs_stub': {'real': IMG_REAL + ['real pthreads; real thread-local dispatch cache'],
                     'stub_or_simulated': ['thread scheduler (seeded baton: who runs is never left to the OS)', 'pixel storage from the simulator arena', 'accessor callbacks']},
    'assumptions': COMMON_ASSUME + ["code between two scheduling points runs atomically in the serialised schedule; the TSan pass covers race DETECTION at every instrumented access, but result corruption that needs a switch at an un-hooked instruction is out of reach",
                                    "the implementation chain is installed by the main thread before the workers exist (as the load-time constructor does)"],
    'probes': ['context_switches', 'points@fast-path-cache:store', 'points@image:dirty-test', 'points@image:recompute'],
}

PROPS['C17'] = {
    'level': 'exploration',
    'passes': [{'variant': 'asan', 'binary': 'glyph16', 'runs': [40000, 1500000], 'deadline_s': [120, 2400], 'tag': 'slots16'},
               {'variant': 'asan', 'binary': 'glyph64', 'runs': [15000, 500000], 'deadline_s': [120, 2400], 'tag': 'slots64'},
               {'variant': 'asan', 'binary': 'glyph', 'runs': [160, 4000], 'deadline_s': [150, 2400], 'tag': 'real'},
               # exhaustive small scope: every history of 6 operations (freeze, thaw, insert/lookup/remove of
               # four colliding keys: 14^6 = 7 529 536 histories) at 16 slots; run index = history number
               {'variant': 'asan', 'binary': 'glyph16', 'runs': [0, 7529536], 'deadline_s': [10, 3000], 'tag': 'exhaustive-len6',
                'tier': 2, 'extra': ['--raw-index'], 'thorough_only': True}],
    'crash_property': 'C17',
    'hang_s': 300,
    'shrink_budget': 150,
    'rule': ("one evaluation = one seeded history of 20-90 (thorough: -160) cache operations - freeze, thaw, insert (only while frozen and only of absent keys, as the API demands), "
             "lookup and remove of present and absent keys, caller scribbling over the original image, glyph runs through composite_glyphs and composite_glyphs_no_mask, table-filling "
             "runs, allocation failures on insert - over keys that include exact hash collisions ((1,5),(2,4),(3,3) ...), against a model map with LRU order and a tombstone bound; hook H4 "
             "bounds every call to HASH_SIZE probe steps; glyph runs are compared with per-glyph compositing / ADD-accumulation into a mask on the same chain.  Three builds: 16-slot, "
             "64-slot (hook H4) and the real 32768-slot table.  Non-trivial = at least 3 entries and 3 checked lookups; distinct = distinct event hashes"),
    'real_vs_stub': {'real': ['pixman-glyph.c and everything it calls (all of pixman)'],
                     'stub_or_simulated': ['table size 16/8/4 and 64/32/16 through hook H4 in two of the three passes', 'malloc failures on insert', 'probe-step counter through hook H4']},
    'assumptions': COMMON_ASSUME + ["insert is only issued while frozen and only for absent keys (API preconditions)", "glyphs are drawn wholly inside the destination so that 'drawn' (hence LRU order) is unambiguous",
                                    "where the outcome of a thaw depends on the internal tombstone count the oracle accepts: unchanged / the LOW most recently used / empty, and is exact where the API fixes the outcome"],
    'probes': ['lookups_checked', 'entries_evicted_by_thaw', 'inserts_refused_full', 'glyph_runs_compared', 'faults_fired', 'runs_filling_table', 'thaw_emptied_table'],
}

PROPS['C08'] = {
    'level': 'exploration',
    'passes': [{'variant': 'opt', 'binary': 'sample', 'runs': [16000, 600000], 'deadline_s': [150, 2400]}],
    'rule': ("one evaluation = one seeded scene: a source of 1..64 x 1..64 random pixels (a8r8g8b8, x8r8g8b8, a8, r5g6b5; 1x1 and 1xN included; one scene in twelve a 6000..32000-pixel-wide source minified 100-1000x with the first samples far to its left), a transform (none, integer and fractional "
             "translation, +-scale with positions on pixel boundaries, 90-degree rotations, general affine, projective with w in about [1/2,4]), a filter (NEAREST, BILINEAR and their aliases, "
             "CONVOLUTION and SEPARABLE_CONVOLUTION with non-negative kernels up to 5x5 and 0-2 phase bits), a repeat mode, and 1-3 OP_SRC requests into an a8r8g8b8 destination, executed "
             "under ALL 32 chains and compared pixel by pixel with a reference sampler written from the property statement and rounding.txt: exact for NEAREST and BILINEAR under affine "
             "transforms, +-1 per channel for the convolutions; under projective transforms NEAREST only, and only pixels whose exact rational position is farther from a pixel boundary "
             "than the error the statement allows.  Non-trivial = at least 16 pixels judged; distinct = distinct event hashes (all destinations of all chains)"),
    'real_vs_stub': {'real': IMG_REAL, 'stub_or_simulated': ['PIXMAN_DISABLE environment variable (set before the real _pixman_choose_implementation())']},
    'assumptions': COMMON_ASSUME + ["the 300-line reference sampler is trusted (it agreed exactly with pixman on 1.6e7 affine pixels in the design probe)",
                                    "convolution kernels are non-negative with sum <= 1 so that neither clipping nor accumulator sign handling enters the comparison",
                                    "bilinear and convolution filters are not judged under projective transforms (a one-unit position error may legitimately move a 7-bit weight)"],
    'probes': ['pixels_judged', 'projective', 'affine', 'bilinear', 'nearest', 'convolution', 'separable-convolution', 'reflect', 'pad', 'normal', 'none'],
}

MANIFEST_TEXT = {}
MANIFEST_TEXT['C06'] = {
    'technique': 'deterministic simulation: seeded operation histories with allocation-fault events against the real region code; canonical-form invariants + point-set equality oracle after every step',
    'level_text': ("seeded search over operation histories (the dimension the property quantifies over besides inputs): every step of every history is "
                   "checked against the canonical-form invariants and equal() against exact point-set equality; inputs are sampled, so a clean batch is evidence, not proof"),
    'level_note': "trusts the harness's own 60-line point-set comparison and canonical-form checker; coordinates mostly on a 40x40 grid plus excursions to the 16/32-bit limits",
    'design_ref': 'DESIGN.md section 4, C06',
}

MANIFEST_TEXT['C15'] = {
    'technique': 'deterministic simulation with fault injection: allocation failures at every (op, k-th allocation) position x {single, persistent}, lock-step differential against the fault-free execution, exact live-block ledger',
    'level_text': ("fault enumeration: within each sampled scenario the thorough tier fails every allocation position of every call, once singly and once persistently; "
                   "the quick tier samples positions.  Scenarios (inputs) are sampled"),
    'level_note': "trusts the allocator wrapper's live table and the lock-step comparison; ASan keeps memory errors visible; allocation sites that no scenario reaches are listed as gaps in the evidence",
    'design_ref': 'DESIGN.md section 4, C15',
}

MANIFEST_TEXT['C02'] = {
    'technique': 'deterministic simulation over configurations: every seeded request list executed under all 32 implementation chains (built by the real selection code) and compared bit for bit with the general path',
    'level_text': "the configuration dimension is enumerated exhaustively (32 chains) for every sampled request list; requests are sampled",
    'level_note': "chains are those this CPU offers (mmx, sse2, ssse3); equality is on defined bits as in test/utils.c",
    'design_ref': 'DESIGN.md section 4, C02',
}
MANIFEST_TEXT['C19'] = {
    'technique': 'deterministic simulation over configurations: fill/blt against a bit-exact reference and fill_boxes/rectangles against solid compositing, on all 32 chains',
    'level_text': "configuration dimension exhaustive per scenario (which chains own a fill/blt primitive decides success or FALSE); geometry, depth, alignment, colour and operator sampled",
    'level_note': "independent 25-line reference for raw fill/copy; differential oracle (same chain) for the compositing clause",
    'design_ref': 'DESIGN.md section 4, C19',
}
MANIFEST_TEXT['C04'] = {
    'technique': 'deterministic simulation over configurations with a monitored storage seam: guard pages, poisoned canaries, accessor interval checks and ASan while seeded extreme-geometry requests run on seed-chosen chains',
    'level_text': "memory-safety invariant monitored on every sampled request under 6 of the 32 chains per run (all chains over a batch), by a gcc and by a clang sanitizer build; inputs sampled with bias to the listed edge geometry, with constructed exact-fit, projective-cover and 4-GiB-allocation cases",
    'level_note': "reads by non-instrumented inline assembly are only caught by the guard page side",
    'design_ref': 'DESIGN.md section 4, C04',
}

MANIFEST_TEXT['C14'] = {
    'technique': 'deterministic simulation over histories: seeded setter/draw histories with allocation-fault events on long-lived images, each drawing request re-executed on fresh replicas built from a property model (differential)',
    'level_text': "seeded search over histories (the dimension the property quantifies over); every drawing request of every history is compared with its fresh-replica twin",
    'level_note': "trusts the property model (last successfully applied value) and the replica builder; equality on defined bits",
    'design_ref': 'DESIGN.md section 4, C14',
}
MANIFEST_TEXT['C20'] = {
    'technique': 'deterministic simulation over histories: seeded ref/unref/attach/setter/glyph-cache histories with allocation-fault events against a reference-count and attachment model, destroy-callback ledger and exact allocation ledger',
    'level_text': "seeded search over lifetime histories; every step checked against the model, every history ends with all references dropped and an empty allocation ledger",
    'level_note': "trusts the 80-line lifetime model and the allocator wrapper's live table; ASan makes use-after-free visible",
    'design_ref': 'DESIGN.md section 4, C20',
}

MANIFEST_TEXT['C16'] = {
    'technique': 'deterministic simulation of threads: real pthreads released one at a time by a seeded baton scheduler at API boundaries, guarded library hooks and accessor callbacks; alone-vs-together oracle, access ledger, and ThreadSanitizer under the same replayable schedules',
    'level_text': "seeded search over interleavings (one seed = one exactly repeatable schedule) and workloads; thousands of distinct interleavings per run, counted",
    'level_note': "yield points exist only where listed; TSan sees every instrumented access but only under serialised schedules",
    'design_ref': 'DESIGN.md section 4, C16',
}

MANIFEST_TEXT['C17'] = {
    'technique': 'deterministic simulation over histories: seeded glyph-cache histories with allocation-fault events against a map/LRU/tombstone-bound model, bounded probe steps through a guarded hook, small-scope table builds, differential glyph drawing',
    'level_text': "seeded search over cache histories at three table sizes (16, 64 and the real 32768 slots); every lookup, insert, thaw and glyph run of every history is checked against the model",
    'level_note': "small-scope tables come from hook H4 (water marks overridable under PIXMAN_VERIF); the real-size pass runs fewer, longer histories",
    'design_ref': 'DESIGN.md section 4, C17',
}

MANIFEST_TEXT['C08'] = {
    'technique': 'deterministic simulation over configurations: seeded transformed-source requests executed under all 32 implementation chains (every fetcher that can serve them) and compared with an independent reference sampler',
    'level_text': "configuration dimension ('whichever internal fetcher') exhaustive per scene; transforms, filters, repeats, sizes and formats sampled",
    'level_note': "reference written from the statement and rounding.txt; exact for affine NEAREST/BILINEAR, +-1 for convolutions, boundary-guarded NEAREST for projective",
    'design_ref': 'DESIGN.md section 4, C08',
}
