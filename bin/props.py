"""Per-property configuration of the pxsim driver."""

COMMON_ASSUME = [
    "build configuration frozen in /verif/config/config.h (TLS __thread, constructor attribute, MMX+SSE2+SSSE3); pixman's own .c/.h files are compiled from /repo's working tree on every run",
    "sampling, not proof: the input dimension is drawn from the seed",
    "only the x86-64 implementations exist on this machine",
]

PROPS = {}

PROPS['C06'] = {
    'level': 'exploration',
    'passes': [
        {'variant': 'asan', 'binary': 'region', 'runs': [120000, 3000000], 'deadline_s': [120, 1500]},
    ],
    'rule': ("one evaluation = one seeded history of 20-80 (thorough: 20-120) region operations over two pools of six "
             "long-lived regions (16- and 32-bit), with allocation failures as history events; after every op the canonical-form "
             "invariants are checked on every region of the pool and equal() is compared with point-set equality for the region "
             "just written against all others.  Non-trivial = some region reached >= 3 rectangles and more than 6 times two "
             "objects held the same non-empty point set; distinct = distinct event hashes (op kinds, return values, allocation "
             "counts and every resulting rectangle list) among the non-trivial runs"),
    'real_vs_stub': {'real': ['pixman-region16.c', 'pixman-region32.c', 'pixman-region.c', 'pixman-utils.c (16<->32 conversion)',
                              'pixman-bits-image.c (a1 image for init_from_image)'],
                     'stub_or_simulated': ['malloc/calloc/realloc failures injected by the link-time allocator wrapper']},
    'assumptions': COMMON_ASSUME + [
        "point sets are derived from the implementation's own rectangle lists, so a wrong-but-canonical result of the set algebra (C05) is deliberately not reported here",
        "a region whose operation reported failure is re-initialised before it is used again; what a failed call leaves behind is C15's clause",
        "zero-sized and inverted boxes are kept out of inverse() and reset(), where the library documents them as caller errors",
    ],
    'probes': ['faults_fired', 'runs_reaching_8_rects', 'pair_coincidences_nonempty', 'convert', 'translate', 'init_from_image'],
}

MANIFEST_TEXT = {}
MANIFEST_TEXT['C06'] = {
    'technique': 'deterministic simulation: seeded operation histories with allocation-fault events against the real region code; canonical-form invariants + point-set equality oracle after every step',
    'level_text': ("seeded search over operation histories (the dimension the property quantifies over besides inputs): every step of every history is "
                   "checked against the canonical-form invariants and equal() against exact point-set equality; inputs are sampled, so a clean batch is evidence, not proof"),
    'level_note': "trusts the harness's own 60-line point-set comparison and canonical-form checker; coordinates mostly on a 40x40 grid plus excursions to the 16/32-bit limits",
    'design_ref': 'DESIGN.md section 4, C06',
}
