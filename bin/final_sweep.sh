#!/bin/bash
# Every seeded change against the check of its own property, with the checks in their final
# state.  Runs in an isolated copy of /verif and a scratch worktree of /repo so that nothing
# in /repo is touched:   rsync -a --delete --exclude build --exclude replays --exclude .git /verif/ /tmp/verif-matrix/
#                        git -C /repo worktree add --detach /tmp/wt/matrix-repo HEAD
cd /tmp/verif-matrix || exit 2
# rsync keeps old mtimes: objects rebuilt in the copy after an edit in /verif would look newer than the edited source
find /tmp/verif-matrix/build -mindepth 1 -delete 2>/dev/null
export VERIF_REPO=/tmp/wt/matrix-repo
export PXSIM_NO_SHRINK=1      # the verdict is what the sweep records; minimised replays are made by ordinary runs
R=$VERIF_REPO
OUT=${OUT:-/tmp/mut/final_sweep.tsv}
: > $OUT
for d in /tmp/mut/C??/? /tmp/mut2/C??/? /tmp/mut3/C??/? /tmp/mut4/C??/? /tmp/mut5/C??/? /tmp/mut6/C??/? /tmp/mut7/C??/? /tmp/mut8/C??/? /tmp/mut9/C??/? /tmp/mut10/C??/? /tmp/mut11/C??/?; do
  [ -f $d/patch.diff ] || continue
  prop=$(basename $(dirname $d)); n=$(basename $d)
  case $d in /tmp/mut2/*) id=$prop-r2-$n;; /tmp/mut3/*) id=$prop-r3-$n;; /tmp/mut4/*) id=$prop-r4-$n;; /tmp/mut5/*) id=$prop-r5-$n;; /tmp/mut6/*) id=$prop-r6-$n;; /tmp/mut7/*) id=$prop-r7-$n;; /tmp/mut8/*) id=$prop-r8-$n;; /tmp/mut9/*) id=$prop-r9-$n;; /tmp/mut10/*) id=$prop-r10-$n;; /tmp/mut11/*) id=$prop-r11-$n;; *) id=$prop-$n;; esac
  [ -n "$ONLY" ] && ! echo " $ONLY " | grep -q " $id " && continue
  P=$prop
  [ "$id" = "C08-3" ] && P=C02
  [ "$id" = "C08-r2-1" ] && P=C02
  [ "$id" = "C19-r2-3" ] && P=C15
  [ "$id" = "C08-r4-1" ] && P=C02
  [ "$id" = "C20-r9-2" ] && P=C17
  [ "$id" = "C04-r10-3" ] && P=C15
  git -C $R diff --quiet || { echo "repo dirty"; exit 2; }
  git -C $R apply $d/patch.diff || { echo -e "$id\t$P\tpatch-does-not-apply" >> $OUT; continue; }
  bin/check $P quick > $d/final.$P.log 2>&1; rc=$?
  cls=$(grep -A1 '^VIOLATION' $d/final.$P.log | grep -o 'class=[^ ]*' | sort -u | head -3 | tr '\n' ',')
  echo -e "$id\t$P\t$rc\t$cls" >> $OUT
  find /tmp/verif-matrix/replays -name "*.replay" -delete
  git -C $R checkout -- .
done
echo SWEEP-DONE >> $OUT
