#!/bin/bash
# Confirms a seeded change independently, in a scratch worktree outside /repo
# and /verif:  clean tree -> demo passes;  changed tree -> compiles, the 33
# pinned tests pass, demo fails.   usage: verify_mutant.sh <mutant dir> <scratch worktree>
set -u
M=$1; WT=$2
OUT=$M/verify.log
: > $OUT
cd $WT || exit 2
git checkout -q -- . 2>/dev/null
[ -d build ] || meson setup build -Dgtk=disabled -Dlibpng=disabled -Dopenmp=disabled >/dev/null 2>&1 || meson setup build >/dev/null 2>&1
demo_build() { gcc -O1 -g $M/demo.c -I$WT/pixman -I$WT/build/pixman -L$WT/build/pixman -lpixman-1 -lm -lpthread -Wl,-rpath,$WT/build/pixman -o $M/demo.bin >>$OUT 2>&1; }
run_demo() { ( cd $M && timeout 60 ./demo.bin >>$OUT 2>&1 ); echo $?; }
meson compile -C build >/dev/null 2>&1 || { echo "clean build failed" >>$OUT; echo RESULT build-clean-failed; exit 1; }
demo_build || { echo RESULT demo-build-failed; exit 1; }
echo "--- demo on clean tree" >>$OUT
RC_CLEAN=$(run_demo)
git apply $M/patch.diff || { echo RESULT patch-does-not-apply; exit 1; }
meson compile -C build >>$OUT 2>&1 || { git checkout -q -- .; echo RESULT mutated-build-failed; exit 1; }
echo "--- meson test on changed tree" >>$OUT
meson test -t 6 -C build >$M/verify.tests 2>&1; T=$?
OKN=$(grep -E "^Ok:" $M/verify.tests | awk '{print $2}')
demo_build
echo "--- demo on changed tree" >>$OUT
RC_MUT=$(run_demo)
git checkout -q -- .
meson compile -C build >/dev/null 2>&1
echo "RESULT clean_demo_rc=$RC_CLEAN tests_rc=$T tests_ok=$OKN mutated_demo_rc=$RC_MUT" | tee -a $OUT
