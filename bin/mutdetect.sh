#!/bin/bash
# Applies a seeded change to /repo, runs one check on it, undoes the change.
# usage: mutdetect.sh <mutant dir> <property> [quick|thorough]
M=$1; P=$2; T=${3:-quick}
cd /verif
git -C /repo diff --quiet || { echo "/repo is dirty"; exit 2; }
git -C /repo apply $M/patch.diff || { echo "patch does not apply"; exit 2; }
mkdir -p /tmp/mutreplays
S=$(date +%s)
cp evidence/$P.json /tmp/mutreplays/evidence.$P.keep 2>/dev/null
bin/check $P $T > $M/detect.$P.log 2>&1; RC=$?
E=$(( $(date +%s) - S ))
git -C /repo checkout -- .
# the evidence file describes runs on the real tree, not on a seeded change
cp /tmp/mutreplays/evidence.$P.keep evidence/$P.json 2>/dev/null
# replays written for a seeded change are not findings on the real tree
for f in $(grep -o "replay=replays/[^] ]*" $M/detect.$P.log | cut -d= -f2); do mv $f /tmp/mutreplays/ 2>/dev/null; done
echo "$(basename $(dirname $M))/$(basename $M) check=$P rc=$RC ${E}s $(grep -c '^VIOLATION' $M/detect.$P.log) violation line(s): $(grep -A1 '^VIOLATION' $M/detect.$P.log | grep class= | head -2 | cut -c1-160 | tr '\n' ' ')"
