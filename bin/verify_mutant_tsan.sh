#!/bin/bash
# As verify_mutant.sh, for changes whose demonstration needs ThreadSanitizer: the library is
# also built with -Db_sanitize=thread (build-tsan inside the scratch worktree) and the demo
# is run plain and under TSan in both states.   usage: verify_mutant_tsan.sh <mutant dir> <scratch worktree>
set -u
M=$1; WT=$2
OUT=$M/verify.log
: > $OUT
cd $WT || exit 2
git checkout -q -- . 2>/dev/null
[ -d build ] || meson setup build -Dgtk=disabled -Dlibpng=disabled >/dev/null 2>&1
[ -d build-tsan ] || meson setup build-tsan -Dgtk=disabled -Dlibpng=disabled -Db_sanitize=thread -Db_lundef=false >/dev/null 2>&1
libs() { meson compile -C build >>$OUT 2>&1 && ninja -C build-tsan pixman/libpixman-1.so.0.40.1 >>$OUT 2>&1; }
demos() {
  gcc -O1 -g $M/demo.c -I$WT/pixman -I$WT/build/pixman -L$WT/build/pixman -lpixman-1 -lm -lpthread -Wl,-rpath,$WT/build/pixman -o $M/demo.bin >>$OUT 2>&1 &&
  gcc -O1 -g -fsanitize=thread $M/demo.c -I$WT/pixman -I$WT/build-tsan/pixman -L$WT/build-tsan/pixman -lpixman-1 -lm -lpthread -Wl,-rpath,$WT/build-tsan/pixman -o $M/demo-tsan.bin >>$OUT 2>&1; }
run() { ( cd $M && timeout 120 ./$1 >>$OUT 2>&1 ); echo $?; }
libs || { echo RESULT build-clean-failed; exit 1; }
demos || { echo RESULT demo-build-failed; exit 1; }
echo "--- demos on clean tree" >>$OUT
C1=$(run demo.bin); C2=$(run demo-tsan.bin)
git apply $M/patch.diff || { echo RESULT patch-does-not-apply; exit 1; }
libs || { git checkout -q -- .; echo RESULT mutated-build-failed; exit 1; }
meson test -t 6 -C build >$M/verify.tests 2>&1; T=$?
OKN=$(grep -E "^Ok:" $M/verify.tests | awk '{print $2}')
echo "--- demos on changed tree" >>$OUT
M1=$(run demo.bin); M2=$(run demo-tsan.bin)
git checkout -q -- .
libs
echo "RESULT clean_demo_rc=$C1 clean_tsan_demo_rc=$C2 tests_rc=$T tests_ok=$OKN mutated_demo_rc=$M1 mutated_tsan_demo_rc=$M2" | tee -a $OUT
