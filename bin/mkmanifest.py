#!/usr/bin/env python3
"""Regenerates /verif/MANIFEST.json from bin/props.py (claimed checks) and the
not-applicable table below, so the two can never drift apart."""
import json, os, sys, subprocess
sys.path.insert(0, os.path.dirname(os.path.abspath(__file__)))
from props import PROPS, MANIFEST_TEXT

NA = {
 'C01': "pure function of (operator, source, mask, destination pixel): quantified over inputs only; no schedule, fault, history or configuration for a simulator to search (disagreement between implementations is C02's)",
 'C03': "quantified over inputs only: the composite region is a pure function of the request and the clip lists (write confinement under allocation failure is a clause of C15 and is checked there)",
 'C05': "quantified over inputs only: the result of a region operation is a function of its operands; deciding it needs a set model over inputs, not a simulator (C06 derives point sets from the implementation's own lists on purpose)",
 'C07': "quantified over inputs only: read-only queries and single-call transformations of one region",
 'C09': "quantified over inputs only: two presentations of the same picture through one call each",
 'C10': "quantified over inputs only; accessors have no failure channel and no ordering freedom, so there is no fault or schedule to inject",
 'C11': "quantified over inputs only: stateless fixed-point arithmetic",
 'C12': "quantified over inputs only: rasterisation of one shape is a pure function of its coordinates",
 'C13': "quantified over inputs only: gradient colour is a pure function of position and stops (gradients still appear as sources in the cfg, fault, hist and thread worlds)",
 'C18': "quantified over inputs only: one stateless call (its allocation is one of C15's fault sites)",
}
ALL = ['C%02d' % i for i in range(1, 21)]
PENDING = "claimed in DESIGN.md section 2 but its world is not built yet in this session; no check is registered, so nothing is claimed for it at this commit"

def main():
    repo_log = subprocess.run(['git', '-C', '/repo', 'log', '--format=%H %s'], stdout=subprocess.PIPE, text=True).stdout.splitlines()
    hooks = [l.split()[0] for l in repo_log if ' verif hook ' in l]
    checks = []
    for pid in ALL:
        if pid not in PROPS:
            continue
        c = PROPS[pid]
        t = MANIFEST_TEXT[pid]
        checks.append({
            'property_id': pid,
            'quick_cmd': 'bin/check %s quick' % pid,
            'thorough_cmd': 'bin/check %s thorough' % pid,
            'evidence_file': 'evidence/%s.json' % pid,
            'replay_cmd_template': 'bin/check %s --replay {path}' % pid,
            'engine': 'pxsim',
            'level_claimed': {'category': c['level'], 'text': t['level_text'], 'design_ref': t['design_ref']},
            'level_note': t['level_note'],
            'technique': t['technique'],
        })
    na = []
    for pid in ALL:
        if pid in PROPS:
            continue
        na.append({'property_id': pid, 'reason': NA.get(pid, PENDING)})
    worlds = sorted({p['binary'] for c in PROPS.values() for p in c['passes']})
    variants = sorted({(p['variant'], p['binary']) for c in PROPS.values() for p in c['passes']})
    setup = ' && '.join('make -j16 V=%s %s' % (v, ' '.join('build/%s/%s' % (v, b) for (vv, b) in variants if vv == v))
                        for v in sorted({v for v, _ in variants}))
    m = {
        'version': 1,
        'setup_cmd': setup,
        'hooks': {
            'guard': 'PIXMAN_VERIF',
            'enable': "the checks compile /repo/pixman/*.c themselves (/verif/Makefile) with -DPIXMAN_VERIF; no installed or meson-built library is used",
            'baseline_off_cmd': 'meson compile -C /repo/_build && meson test -C /repo/_build',
            'source_commits': list(reversed(hooks)),
            'add_only': True,
        },
        'engines': [{'name': 'pxsim', 'path': 'sim/', 'serves_properties': [c['property_id'] for c in checks],
                     'kind_free_text': 'deterministic simulation with fault injection: seeded explicit op lists / fault plans / schedules executed against the real pixman objects, differential and model oracles, ddmin shrinking, replay files'}],
        'checks': checks,
        'not_applicable': na,
        'notes': "bin/check <id> <quick|thorough> honours VERIF_SEED. Exit 2 = harness fault (never a VIOLATION line). known_findings.json lists recorded defects and 'fixed:' entries; regress/<id>/*.replay are minimised histories replayed on every run.",
    }
    json.dump(m, open(os.path.join(os.path.dirname(os.path.dirname(os.path.abspath(__file__))), 'MANIFEST.json'), 'w'), indent=1)

main()
